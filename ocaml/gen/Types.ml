open Ascii
open Ast
open BinNat
open BinNums
open Datatypes
open Json
open List
open State
open Str
open String
open Util

(** val tf : string -> node -> node **)

let tf k n =
  match nfield k n with
  | Some v -> v
  | None -> nnull

(** val tlist : string -> node -> node list **)

let tlist k n =
  match nfield k n with
  | Some n0 -> (match n0 with
                | NArr l -> l
                | _ -> [])
  | None -> []

(** val tbool : string -> node -> bool **)

let tbool k n =
  match nfield k n with
  | Some n0 ->
    (match n0 with
     | NScalar j -> (match j with
                     | JBool b -> b
                     | _ -> false)
     | _ -> false)
  | None -> false

(** val is_ty : string -> node -> bool **)

let is_ty t n =
  sq t (ntype n)

(** val ann_type : node -> node option **)

let ann_type a =
  if is_ty (String ((Ascii (false, false, true, false, true, false, true,
       false)), (String ((Ascii (true, true, false, false, true, true, true,
       false)), (String ((Ascii (false, false, true, false, true, false,
       true, false)), (String ((Ascii (true, false, false, true, true, true,
       true, false)), (String ((Ascii (false, false, false, false, true,
       true, true, false)), (String ((Ascii (true, false, true, false, false,
       true, true, false)), (String ((Ascii (true, false, false, false,
       false, false, true, false)), (String ((Ascii (false, true, true, true,
       false, true, true, false)), (String ((Ascii (false, true, true, true,
       false, true, true, false)), (String ((Ascii (true, true, true, true,
       false, true, true, false)), (String ((Ascii (false, false, true,
       false, true, true, true, false)), (String ((Ascii (true, false, false,
       false, false, true, true, false)), (String ((Ascii (false, false,
       true, false, true, true, true, false)), (String ((Ascii (true, false,
       false, true, false, true, true, false)), (String ((Ascii (true, true,
       true, true, false, true, true, false)), (String ((Ascii (false, true,
       true, true, false, true, true, false)),
       EmptyString)))))))))))))))))))))))))))))))) a
  then Some
         (tf (String ((Ascii (false, false, true, false, true, true, true,
           false)), (String ((Ascii (true, false, false, true, true, true,
           true, false)), (String ((Ascii (false, false, false, false, true,
           true, true, false)), (String ((Ascii (true, false, true, false,
           false, true, true, false)), (String ((Ascii (true, false, false,
           false, false, false, true, false)), (String ((Ascii (false, true,
           true, true, false, true, true, false)), (String ((Ascii (false,
           true, true, true, false, true, true, false)), (String ((Ascii
           (true, true, true, true, false, true, true, false)), (String
           ((Ascii (false, false, true, false, true, true, true, false)),
           (String ((Ascii (true, false, false, false, false, true, true,
           false)), (String ((Ascii (false, false, true, false, true, true,
           true, false)), (String ((Ascii (true, false, false, true, false,
           true, true, false)), (String ((Ascii (true, true, true, true,
           false, true, true, false)), (String ((Ascii (false, true, true,
           true, false, true, true, false)),
           EmptyString)))))))))))))))))))))))))))) a)
  else None

(** val type_params : node -> node list **)

let type_params ty =
  let p =
    tf (String ((Ascii (false, false, true, false, true, true, true, false)),
      (String ((Ascii (true, false, false, true, true, true, true, false)),
      (String ((Ascii (false, false, false, false, true, true, true, false)),
      (String ((Ascii (true, false, true, false, false, true, true, false)),
      (String ((Ascii (false, false, false, false, true, false, true,
      false)), (String ((Ascii (true, false, false, false, false, true, true,
      false)), (String ((Ascii (false, true, false, false, true, true, true,
      false)), (String ((Ascii (true, false, false, false, false, true, true,
      false)), (String ((Ascii (true, false, true, true, false, true, true,
      false)), (String ((Ascii (true, true, false, false, true, true, true,
      false)), EmptyString)))))))))))))))))))) ty
  in
  if is_ty (String ((Ascii (false, false, true, false, true, false, true,
       false)), (String ((Ascii (true, true, false, false, true, true, true,
       false)), (String ((Ascii (false, false, true, false, true, false,
       true, false)), (String ((Ascii (true, false, false, true, true, true,
       true, false)), (String ((Ascii (false, false, false, false, true,
       true, true, false)), (String ((Ascii (true, false, true, false, false,
       true, true, false)), (String ((Ascii (false, false, false, false,
       true, false, true, false)), (String ((Ascii (true, false, false,
       false, false, true, true, false)), (String ((Ascii (false, true,
       false, false, true, true, true, false)), (String ((Ascii (true, false,
       false, false, false, true, true, false)), (String ((Ascii (true,
       false, true, true, false, true, true, false)), (String ((Ascii (true,
       false, true, false, false, true, true, false)), (String ((Ascii
       (false, false, true, false, true, true, true, false)), (String ((Ascii
       (true, false, true, false, false, true, true, false)), (String ((Ascii
       (false, true, false, false, true, true, true, false)), (String ((Ascii
       (true, false, false, true, false, false, true, false)), (String
       ((Ascii (false, true, true, true, false, true, true, false)), (String
       ((Ascii (true, true, false, false, true, true, true, false)), (String
       ((Ascii (false, false, true, false, true, true, true, false)), (String
       ((Ascii (true, false, false, false, false, true, true, false)),
       (String ((Ascii (false, true, true, true, false, true, true, false)),
       (String ((Ascii (false, false, true, false, true, true, true, false)),
       (String ((Ascii (true, false, false, true, false, true, true, false)),
       (String ((Ascii (true, false, false, false, false, true, true,
       false)), (String ((Ascii (false, false, true, false, true, true, true,
       false)), (String ((Ascii (true, false, false, true, false, true, true,
       false)), (String ((Ascii (true, true, true, true, false, true, true,
       false)), (String ((Ascii (false, true, true, true, false, true, true,
       false)),
       EmptyString)))))))))))))))))))))))))))))))))))))))))))))))))))))))) p
  then tlist (String ((Ascii (false, false, false, false, true, true, true,
         false)), (String ((Ascii (true, false, false, false, false, true,
         true, false)), (String ((Ascii (false, true, false, false, true,
         true, true, false)), (String ((Ascii (true, false, false, false,
         false, true, true, false)), (String ((Ascii (true, false, true,
         true, false, true, true, false)), (String ((Ascii (true, true,
         false, false, true, true, true, false)), EmptyString)))))))))))) p
  else []

(** val reg_get :
    str -> coq_N -> ((str * coq_N) * node) list -> node option **)

let rec reg_get sym c = function
| [] -> None
| p :: r ->
  let (p0, v) = p in
  let (k, c') = p0 in
  if (&&) (str_eqb k sym) (N.eqb c c') then Some v else reg_get sym c r

(** val reg_update :
    str -> coq_N -> (node option -> node) -> ((str * coq_N) * node) list ->
    ((str * coq_N) * node) list **)

let rec reg_update sym c f = function
| [] -> ((sym, c), (f None)) :: []
| p :: r ->
  let (p0, v) = p in
  let (k, c') = p0 in
  if (&&) (str_eqb k sym) (N.eqb c c')
  then ((k, c'), (f (Some v))) :: r
  else ((k, c'), v) :: (reg_update sym c f r)

(** val iface_extends : node -> node list **)

let iface_extends = function
| NArr l ->
  (match l with
   | [] -> []
   | n :: l0 ->
     (match n with
      | NArr e ->
        (match l0 with
         | [] -> []
         | _ :: l1 -> (match l1 with
                       | [] -> e
                       | _ :: _ -> []))
      | _ -> []))
| _ -> []

(** val iface_body : node -> node list **)

let iface_body = function
| NArr l ->
  (match l with
   | [] -> []
   | _ :: l0 ->
     (match l0 with
      | [] -> []
      | n0 :: l1 ->
        (match n0 with
         | NArr b -> (match l1 with
                      | [] -> b
                      | _ :: _ -> [])
         | _ -> [])))
| _ -> []

(** val register_ts_decl : node -> st -> st **)

let register_ts_decl n s =
  if is_ty (String ((Ascii (false, false, true, false, true, false, true,
       false)), (String ((Ascii (true, true, false, false, true, true, true,
       false)), (String ((Ascii (true, false, false, true, false, false,
       true, false)), (String ((Ascii (false, true, true, true, false, true,
       true, false)), (String ((Ascii (false, false, true, false, true, true,
       true, false)), (String ((Ascii (true, false, true, false, false, true,
       true, false)), (String ((Ascii (false, true, false, false, true, true,
       true, false)), (String ((Ascii (false, true, true, false, false, true,
       true, false)), (String ((Ascii (true, false, false, false, false,
       true, true, false)), (String ((Ascii (true, true, false, false, false,
       true, true, false)), (String ((Ascii (true, false, true, false, false,
       true, true, false)), (String ((Ascii (false, false, true, false,
       false, false, true, false)), (String ((Ascii (true, false, true,
       false, false, true, true, false)), (String ((Ascii (true, true, false,
       false, false, true, true, false)), (String ((Ascii (false, false,
       true, true, false, true, true, false)), (String ((Ascii (true, false,
       false, false, false, true, true, false)), (String ((Ascii (false,
       true, false, false, true, true, true, false)), (String ((Ascii (true,
       false, false, false, false, true, true, false)), (String ((Ascii
       (false, false, true, false, true, true, true, false)), (String ((Ascii
       (true, false, false, true, false, true, true, false)), (String ((Ascii
       (true, true, true, true, false, true, true, false)), (String ((Ascii
       (false, true, true, true, false, true, true, false)),
       EmptyString)))))))))))))))))))))))))))))))))))))))))))) n
  then (match tf (String ((Ascii (true, false, false, true, false, true,
                true, false)), (String ((Ascii (false, false, true, false,
                false, true, true, false)), EmptyString)))) n with
        | Ident (sym, c, _) ->
          let body =
            tlist (String ((Ascii (false, true, false, false, false, true,
              true, false)), (String ((Ascii (true, true, true, true, false,
              true, true, false)), (String ((Ascii (false, false, true,
              false, false, true, true, false)), (String ((Ascii (true,
              false, false, true, true, true, true, false)),
              EmptyString))))))))
              (tf (String ((Ascii (false, true, false, false, false, true,
                true, false)), (String ((Ascii (true, true, true, true,
                false, true, true, false)), (String ((Ascii (false, false,
                true, false, false, true, true, false)), (String ((Ascii
                (true, false, false, true, true, true, true, false)),
                EmptyString)))))))) n)
          in
          let ext =
            tlist (String ((Ascii (true, false, true, false, false, true,
              true, false)), (String ((Ascii (false, false, false, true,
              true, true, true, false)), (String ((Ascii (false, false, true,
              false, true, true, true, false)), (String ((Ascii (true, false,
              true, false, false, true, true, false)), (String ((Ascii
              (false, true, true, true, false, true, true, false)), (String
              ((Ascii (false, false, true, false, false, true, true, false)),
              (String ((Ascii (true, true, false, false, true, true, true,
              false)), EmptyString)))))))))))))) n
          in
          set_interfaces
            (reg_update sym c (fun old ->
              match old with
              | Some i ->
                NArr ((NArr (app (iface_extends i) ext)) :: ((NArr
                  (app (iface_body i) body)) :: []))
              | None -> NArr ((NArr ext) :: ((NArr body) :: [])))
              s.interfaces) s
        | _ -> s)
  else if is_ty (String ((Ascii (false, false, true, false, true, false,
            true, false)), (String ((Ascii (true, true, false, false, true,
            true, true, false)), (String ((Ascii (false, false, true, false,
            true, false, true, false)), (String ((Ascii (true, false, false,
            true, true, true, true, false)), (String ((Ascii (false, false,
            false, false, true, true, true, false)), (String ((Ascii (true,
            false, true, false, false, true, true, false)), (String ((Ascii
            (true, false, false, false, false, false, true, false)), (String
            ((Ascii (false, false, true, true, false, true, true, false)),
            (String ((Ascii (true, false, false, true, false, true, true,
            false)), (String ((Ascii (true, false, false, false, false, true,
            true, false)), (String ((Ascii (true, true, false, false, true,
            true, true, false)), (String ((Ascii (false, false, true, false,
            false, false, true, false)), (String ((Ascii (true, false, true,
            false, false, true, true, false)), (String ((Ascii (true, true,
            false, false, false, true, true, false)), (String ((Ascii (false,
            false, true, true, false, true, true, false)), (String ((Ascii
            (true, false, false, false, false, true, true, false)), (String
            ((Ascii (false, true, false, false, true, true, true, false)),
            (String ((Ascii (true, false, false, false, false, true, true,
            false)), (String ((Ascii (false, false, true, false, true, true,
            true, false)), (String ((Ascii (true, false, false, true, false,
            true, true, false)), (String ((Ascii (true, true, true, true,
            false, true, true, false)), (String ((Ascii (false, true, true,
            true, false, true, true, false)),
            EmptyString)))))))))))))))))))))))))))))))))))))))))))) n
       then (match tf (String ((Ascii (true, false, false, true, false, true,
                     true, false)), (String ((Ascii (false, false, true,
                     false, false, true, true, false)), EmptyString)))) n with
             | Ident (sym, c, _) ->
               set_aliases
                 (reg_update sym c (fun _ ->
                   tf (String ((Ascii (false, false, true, false, true, true,
                     true, false)), (String ((Ascii (true, false, false,
                     true, true, true, true, false)), (String ((Ascii (false,
                     false, false, false, true, true, true, false)), (String
                     ((Ascii (true, false, true, false, false, true, true,
                     false)), (String ((Ascii (true, false, false, false,
                     false, false, true, false)), (String ((Ascii (false,
                     true, true, true, false, true, true, false)), (String
                     ((Ascii (false, true, true, true, false, true, true,
                     false)), (String ((Ascii (true, true, true, true, false,
                     true, true, false)), (String ((Ascii (false, false,
                     true, false, true, true, true, false)), (String ((Ascii
                     (true, false, false, false, false, true, true, false)),
                     (String ((Ascii (false, false, true, false, true, true,
                     true, false)), (String ((Ascii (true, false, false,
                     true, false, true, true, false)), (String ((Ascii (true,
                     true, true, true, false, true, true, false)), (String
                     ((Ascii (false, true, true, true, false, true, true,
                     false)), EmptyString)))))))))))))))))))))))))))) n)
                   s.aliases) s
             | _ -> s)
       else s

(** val collect_ts_decls : env -> (node -> node list) -> node -> st -> st **)

let collect_ts_decls e subs_of m s =
  if e.e_opts.o_resolve_type
  then fold_left (fun s0 n -> register_ts_decl n s0) (subs_of m) s
  else s

type relem =
| RProp of node * bool * bool * node
| RGetter of node * bool * node
| RMethod of node * bool * bool
| RCall of node list

(** val refine_member : node -> relem option **)

let refine_member m =
  if is_ty (String ((Ascii (false, false, true, false, true, false, true,
       false)), (String ((Ascii (true, true, false, false, true, true, true,
       false)), (String ((Ascii (false, false, false, false, true, false,
       true, false)), (String ((Ascii (false, true, false, false, true, true,
       true, false)), (String ((Ascii (true, true, true, true, false, true,
       true, false)), (String ((Ascii (false, false, false, false, true,
       true, true, false)), (String ((Ascii (true, false, true, false, false,
       true, true, false)), (String ((Ascii (false, true, false, false, true,
       true, true, false)), (String ((Ascii (false, false, true, false, true,
       true, true, false)), (String ((Ascii (true, false, false, true, true,
       true, true, false)), (String ((Ascii (true, true, false, false, true,
       false, true, false)), (String ((Ascii (true, false, false, true,
       false, true, true, false)), (String ((Ascii (true, true, true, false,
       false, true, true, false)), (String ((Ascii (false, true, true, true,
       false, true, true, false)), (String ((Ascii (true, false, false,
       false, false, true, true, false)), (String ((Ascii (false, false,
       true, false, true, true, true, false)), (String ((Ascii (true, false,
       true, false, true, true, true, false)), (String ((Ascii (false, true,
       false, false, true, true, true, false)), (String ((Ascii (true, false,
       true, false, false, true, true, false)),
       EmptyString)))))))))))))))))))))))))))))))))))))) m
  then Some (RProp
         ((tf (String ((Ascii (true, true, false, true, false, true, true,
            false)), (String ((Ascii (true, false, true, false, false, true,
            true, false)), (String ((Ascii (true, false, false, true, true,
            true, true, false)), EmptyString)))))) m),
         (tbool (String ((Ascii (true, true, false, false, false, true, true,
           false)), (String ((Ascii (true, true, true, true, false, true,
           true, false)), (String ((Ascii (true, false, true, true, false,
           true, true, false)), (String ((Ascii (false, false, false, false,
           true, true, true, false)), (String ((Ascii (true, false, true,
           false, true, true, true, false)), (String ((Ascii (false, false,
           true, false, true, true, true, false)), (String ((Ascii (true,
           false, true, false, false, true, true, false)), (String ((Ascii
           (false, false, true, false, false, true, true, false)),
           EmptyString)))))))))))))))) m),
         (tbool (String ((Ascii (true, true, true, true, false, true, true,
           false)), (String ((Ascii (false, false, false, false, true, true,
           true, false)), (String ((Ascii (false, false, true, false, true,
           true, true, false)), (String ((Ascii (true, false, false, true,
           false, true, true, false)), (String ((Ascii (true, true, true,
           true, false, true, true, false)), (String ((Ascii (false, true,
           true, true, false, true, true, false)), (String ((Ascii (true,
           false, false, false, false, true, true, false)), (String ((Ascii
           (false, false, true, true, false, true, true, false)),
           EmptyString)))))))))))))))) m),
         (tf (String ((Ascii (false, false, true, false, true, true, true,
           false)), (String ((Ascii (true, false, false, true, true, true,
           true, false)), (String ((Ascii (false, false, false, false, true,
           true, true, false)), (String ((Ascii (true, false, true, false,
           false, true, true, false)), (String ((Ascii (true, false, false,
           false, false, false, true, false)), (String ((Ascii (false, true,
           true, true, false, true, true, false)), (String ((Ascii (false,
           true, true, true, false, true, true, false)), (String ((Ascii
           (true, true, true, true, false, true, true, false)), (String
           ((Ascii (false, false, true, false, true, true, true, false)),
           (String ((Ascii (true, false, false, false, false, true, true,
           false)), (String ((Ascii (false, false, true, false, true, true,
           true, false)), (String ((Ascii (true, false, false, true, false,
           true, true, false)), (String ((Ascii (true, true, true, true,
           false, true, true, false)), (String ((Ascii (false, true, true,
           true, false, true, true, false)),
           EmptyString)))))))))))))))))))))))))))) m)))
  else if is_ty (String ((Ascii (false, false, true, false, true, false,
            true, false)), (String ((Ascii (true, true, false, false, true,
            true, true, false)), (String ((Ascii (true, false, true, true,
            false, false, true, false)), (String ((Ascii (true, false, true,
            false, false, true, true, false)), (String ((Ascii (false, false,
            true, false, true, true, true, false)), (String ((Ascii (false,
            false, false, true, false, true, true, false)), (String ((Ascii
            (true, true, true, true, false, true, true, false)), (String
            ((Ascii (false, false, true, false, false, true, true, false)),
            (String ((Ascii (true, true, false, false, true, false, true,
            false)), (String ((Ascii (true, false, false, true, false, true,
            true, false)), (String ((Ascii (true, true, true, false, false,
            true, true, false)), (String ((Ascii (false, true, true, true,
            false, true, true, false)), (String ((Ascii (true, false, false,
            false, false, true, true, false)), (String ((Ascii (false, false,
            true, false, true, true, true, false)), (String ((Ascii (true,
            false, true, false, true, true, true, false)), (String ((Ascii
            (false, true, false, false, true, true, true, false)), (String
            ((Ascii (true, false, true, false, false, true, true, false)),
            EmptyString)))))))))))))))))))))))))))))))))) m
       then Some (RMethod
              ((tf (String ((Ascii (true, true, false, true, false, true,
                 true, false)), (String ((Ascii (true, false, true, false,
                 false, true, true, false)), (String ((Ascii (true, false,
                 false, true, true, true, true, false)), EmptyString)))))) m),
              (tbool (String ((Ascii (true, true, false, false, false, true,
                true, false)), (String ((Ascii (true, true, true, true,
                false, true, true, false)), (String ((Ascii (true, false,
                true, true, false, true, true, false)), (String ((Ascii
                (false, false, false, false, true, true, true, false)),
                (String ((Ascii (true, false, true, false, true, true, true,
                false)), (String ((Ascii (false, false, true, false, true,
                true, true, false)), (String ((Ascii (true, false, true,
                false, false, true, true, false)), (String ((Ascii (false,
                false, true, false, false, true, true, false)),
                EmptyString)))))))))))))))) m),
              (tbool (String ((Ascii (true, true, true, true, false, true,
                true, false)), (String ((Ascii (false, false, false, false,
                true, true, true, false)), (String ((Ascii (false, false,
                true, false, true, true, true, false)), (String ((Ascii
                (true, false, false, true, false, true, true, false)),
                (String ((Ascii (true, true, true, true, false, true, true,
                false)), (String ((Ascii (false, true, true, true, false,
                true, true, false)), (String ((Ascii (true, false, false,
                false, false, true, true, false)), (String ((Ascii (false,
                false, true, true, false, true, true, false)),
                EmptyString)))))))))))))))) m)))
       else if is_ty (String ((Ascii (false, false, true, false, true, false,
                 true, false)), (String ((Ascii (true, true, false, false,
                 true, true, true, false)), (String ((Ascii (true, true,
                 true, false, false, false, true, false)), (String ((Ascii
                 (true, false, true, false, false, true, true, false)),
                 (String ((Ascii (false, false, true, false, true, true,
                 true, false)), (String ((Ascii (false, false, true, false,
                 true, true, true, false)), (String ((Ascii (true, false,
                 true, false, false, true, true, false)), (String ((Ascii
                 (false, true, false, false, true, true, true, false)),
                 (String ((Ascii (true, true, false, false, true, false,
                 true, false)), (String ((Ascii (true, false, false, true,
                 false, true, true, false)), (String ((Ascii (true, true,
                 true, false, false, true, true, false)), (String ((Ascii
                 (false, true, true, true, false, true, true, false)),
                 (String ((Ascii (true, false, false, false, false, true,
                 true, false)), (String ((Ascii (false, false, true, false,
                 true, true, true, false)), (String ((Ascii (true, false,
                 true, false, true, true, true, false)), (String ((Ascii
                 (false, true, false, false, true, true, true, false)),
                 (String ((Ascii (true, false, true, false, false, true,
                 true, false)), EmptyString))))))))))))))))))))))))))))))))))
                 m
            then Some (RGetter
                   ((tf (String ((Ascii (true, true, false, true, false,
                      true, true, false)), (String ((Ascii (true, false,
                      true, false, false, true, true, false)), (String
                      ((Ascii (true, false, false, true, true, true, true,
                      false)), EmptyString)))))) m),
                   (tbool (String ((Ascii (true, true, false, false, false,
                     true, true, false)), (String ((Ascii (true, true, true,
                     true, false, true, true, false)), (String ((Ascii (true,
                     false, true, true, false, true, true, false)), (String
                     ((Ascii (false, false, false, false, true, true, true,
                     false)), (String ((Ascii (true, false, true, false,
                     true, true, true, false)), (String ((Ascii (false,
                     false, true, false, true, true, true, false)), (String
                     ((Ascii (true, false, true, false, false, true, true,
                     false)), (String ((Ascii (false, false, true, false,
                     false, true, true, false)), EmptyString))))))))))))))))
                     m),
                   (tf (String ((Ascii (false, false, true, false, true,
                     true, true, false)), (String ((Ascii (true, false,
                     false, true, true, true, true, false)), (String ((Ascii
                     (false, false, false, false, true, true, true, false)),
                     (String ((Ascii (true, false, true, false, false, true,
                     true, false)), (String ((Ascii (true, false, false,
                     false, false, false, true, false)), (String ((Ascii
                     (false, true, true, true, false, true, true, false)),
                     (String ((Ascii (false, true, true, true, false, true,
                     true, false)), (String ((Ascii (true, true, true, true,
                     false, true, true, false)), (String ((Ascii (false,
                     false, true, false, true, true, true, false)), (String
                     ((Ascii (true, false, false, false, false, true, true,
                     false)), (String ((Ascii (false, false, true, false,
                     true, true, true, false)), (String ((Ascii (true, false,
                     false, true, false, true, true, false)), (String ((Ascii
                     (true, true, true, true, false, true, true, false)),
                     (String ((Ascii (false, true, true, true, false, true,
                     true, false)), EmptyString)))))))))))))))))))))))))))) m)))
            else if is_ty (String ((Ascii (false, false, true, false, true,
                      false, true, false)), (String ((Ascii (true, true,
                      false, false, true, true, true, false)), (String
                      ((Ascii (true, true, false, false, false, false, true,
                      false)), (String ((Ascii (true, false, false, false,
                      false, true, true, false)), (String ((Ascii (false,
                      false, true, true, false, true, true, false)), (String
                      ((Ascii (false, false, true, true, false, true, true,
                      false)), (String ((Ascii (true, true, false, false,
                      true, false, true, false)), (String ((Ascii (true,
                      false, false, true, false, true, true, false)), (String
                      ((Ascii (true, true, true, false, false, true, true,
                      false)), (String ((Ascii (false, true, true, true,
                      false, true, true, false)), (String ((Ascii (true,
                      false, false, false, false, true, true, false)),
                      (String ((Ascii (false, false, true, false, true, true,
                      true, false)), (String ((Ascii (true, false, true,
                      false, true, true, true, false)), (String ((Ascii
                      (false, true, false, false, true, true, true, false)),
                      (String ((Ascii (true, false, true, false, false, true,
                      true, false)), (String ((Ascii (false, false, true,
                      false, false, false, true, false)), (String ((Ascii
                      (true, false, true, false, false, true, true, false)),
                      (String ((Ascii (true, true, false, false, false, true,
                      true, false)), (String ((Ascii (false, false, true,
                      true, false, true, true, false)), (String ((Ascii
                      (true, false, false, false, false, true, true, false)),
                      (String ((Ascii (false, true, false, false, true, true,
                      true, false)), (String ((Ascii (true, false, false,
                      false, false, true, true, false)), (String ((Ascii
                      (false, false, true, false, true, true, true, false)),
                      (String ((Ascii (true, false, false, true, false, true,
                      true, false)), (String ((Ascii (true, true, true, true,
                      false, true, true, false)), (String ((Ascii (false,
                      true, true, true, false, true, true, false)),
                      EmptyString))))))))))))))))))))))))))))))))))))))))))))))))))))
                      m
                 then Some (RCall
                        (tlist (String ((Ascii (false, false, false, false,
                          true, true, true, false)), (String ((Ascii (true,
                          false, false, false, false, true, true, false)),
                          (String ((Ascii (false, true, false, false, true,
                          true, true, false)), (String ((Ascii (true, false,
                          false, false, false, true, true, false)), (String
                          ((Ascii (true, false, true, true, false, true,
                          true, false)), (String ((Ascii (true, true, false,
                          false, true, true, true, false)),
                          EmptyString)))))))))))) m))
                 else None

(** val refine_members : node list -> relem list **)

let rec refine_members = function
| [] -> []
| m :: r ->
  (match refine_member m with
   | Some x -> x :: (refine_members r)
   | None -> refine_members r)

(** val key_name : node -> str option **)

let key_name = function
| Ident (s, _, _) -> Some s
| IdName s -> Some s
| Str (v, _) -> Some v
| _ -> None

(** val relem_key : relem -> node option **)

let relem_key = function
| RProp (k, _, _, _) -> Some k
| RGetter (k, _, _) -> Some k
| RMethod (k, _, _) -> Some k
| RCall _ -> None

(** val msg_unres_ref : str **)

let msg_unres_ref =
  s_ (String ((Ascii (true, false, true, false, true, false, true, false)),
    (String ((Ascii (false, true, true, true, false, true, true, false)),
    (String ((Ascii (false, true, false, false, true, true, true, false)),
    (String ((Ascii (true, false, true, false, false, true, true, false)),
    (String ((Ascii (true, true, false, false, true, true, true, false)),
    (String ((Ascii (true, true, true, true, false, true, true, false)),
    (String ((Ascii (false, false, true, true, false, true, true, false)),
    (String ((Ascii (false, true, true, false, true, true, true, false)),
    (String ((Ascii (true, false, false, false, false, true, true, false)),
    (String ((Ascii (false, true, false, false, false, true, true, false)),
    (String ((Ascii (false, false, true, true, false, true, true, false)),
    (String ((Ascii (true, false, true, false, false, true, true, false)),
    (String ((Ascii (false, false, false, false, false, true, false, false)),
    (String ((Ascii (false, false, true, false, true, true, true, false)),
    (String ((Ascii (true, false, false, true, true, true, true, false)),
    (String ((Ascii (false, false, false, false, true, true, true, false)),
    (String ((Ascii (true, false, true, false, false, true, true, false)),
    (String ((Ascii (false, false, false, false, false, true, false, false)),
    (String ((Ascii (false, true, false, false, true, true, true, false)),
    (String ((Ascii (true, false, true, false, false, true, true, false)),
    (String ((Ascii (false, true, true, false, false, true, true, false)),
    (String ((Ascii (true, false, true, false, false, true, true, false)),
    (String ((Ascii (false, true, false, false, true, true, true, false)),
    (String ((Ascii (true, false, true, false, false, true, true, false)),
    (String ((Ascii (false, true, true, true, false, true, true, false)),
    (String ((Ascii (true, true, false, false, false, true, true, false)),
    (String ((Ascii (true, false, true, false, false, true, true, false)),
    (String ((Ascii (false, false, false, false, false, true, false, false)),
    (String ((Ascii (true, true, true, true, false, true, true, false)),
    (String ((Ascii (false, true, false, false, true, true, true, false)),
    (String ((Ascii (false, false, false, false, false, true, false, false)),
    (String ((Ascii (true, false, true, false, true, true, true, false)),
    (String ((Ascii (false, true, true, true, false, true, true, false)),
    (String ((Ascii (true, true, false, false, true, true, true, false)),
    (String ((Ascii (true, false, true, false, true, true, true, false)),
    (String ((Ascii (false, false, false, false, true, true, true, false)),
    (String ((Ascii (false, false, false, false, true, true, true, false)),
    (String ((Ascii (true, true, true, true, false, true, true, false)),
    (String ((Ascii (false, true, false, false, true, true, true, false)),
    (String ((Ascii (false, false, true, false, true, true, true, false)),
    (String ((Ascii (true, false, true, false, false, true, true, false)),
    (String ((Ascii (false, false, true, false, false, true, true, false)),
    (String ((Ascii (false, false, false, false, false, true, false, false)),
    (String ((Ascii (false, true, false, false, false, true, true, false)),
    (String ((Ascii (true, false, true, false, true, true, true, false)),
    (String ((Ascii (true, false, false, true, false, true, true, false)),
    (String ((Ascii (false, false, true, true, false, true, true, false)),
    (String ((Ascii (false, false, true, false, true, true, true, false)),
    (String ((Ascii (true, false, true, true, false, true, false, false)),
    (String ((Ascii (true, false, false, true, false, true, true, false)),
    (String ((Ascii (false, true, true, true, false, true, true, false)),
    (String ((Ascii (false, false, false, false, false, true, false, false)),
    (String ((Ascii (true, false, true, false, true, true, true, false)),
    (String ((Ascii (false, false, true, false, true, true, true, false)),
    (String ((Ascii (true, false, false, true, false, true, true, false)),
    (String ((Ascii (false, false, true, true, false, true, true, false)),
    (String ((Ascii (true, false, false, true, false, true, true, false)),
    (String ((Ascii (false, false, true, false, true, true, true, false)),
    (String ((Ascii (true, false, false, true, true, true, true, false)),
    (String ((Ascii (false, false, false, false, false, true, false, false)),
    (String ((Ascii (false, false, true, false, true, true, true, false)),
    (String ((Ascii (true, false, false, true, true, true, true, false)),
    (String ((Ascii (false, false, false, false, true, true, true, false)),
    (String ((Ascii (true, false, true, false, false, true, true, false)),
    (String ((Ascii (false, true, true, true, false, true, false, false)),
    EmptyString))))))))))))))))))))))))))))))))))))))))))))))))))))))))))))))))))))))))))))))))))))))))))))))))))))))))))))))))))))))))))))))))))

(** val msg_other_mod : str **)

let msg_other_mod =
  s_ (String ((Ascii (false, false, true, false, true, false, true, false)),
    (String ((Ascii (true, false, false, true, true, true, true, false)),
    (String ((Ascii (false, false, false, false, true, true, true, false)),
    (String ((Ascii (true, false, true, false, false, true, true, false)),
    (String ((Ascii (true, true, false, false, true, true, true, false)),
    (String ((Ascii (false, false, false, false, false, true, false, false)),
    (String ((Ascii (false, true, true, false, false, true, true, false)),
    (String ((Ascii (false, true, false, false, true, true, true, false)),
    (String ((Ascii (true, true, true, true, false, true, true, false)),
    (String ((Ascii (true, false, true, true, false, true, true, false)),
    (String ((Ascii (false, false, false, false, false, true, false, false)),
    (String ((Ascii (true, true, true, true, false, true, true, false)),
    (String ((Ascii (false, false, true, false, true, true, true, false)),
    (String ((Ascii (false, false, false, true, false, true, true, false)),
    (String ((Ascii (true, false, true, false, false, true, true, false)),
    (String ((Ascii (false, true, false, false, true, true, true, false)),
    (String ((Ascii (false, false, false, false, false, true, false, false)),
    (String ((Ascii (true, false, true, true, false, true, true, false)),
    (String ((Ascii (true, true, true, true, false, true, true, false)),
    (String ((Ascii (false, false, true, false, false, true, true, false)),
    (String ((Ascii (true, false, true, false, true, true, true, false)),
    (String ((Ascii (false, false, true, true, false, true, true, false)),
    (String ((Ascii (true, false, true, false, false, true, true, false)),
    (String ((Ascii (true, true, false, false, true, true, true, false)),
    (String ((Ascii (false, false, false, false, false, true, false, false)),
    (String ((Ascii (true, true, false, false, false, true, true, false)),
    (String ((Ascii (true, false, false, false, false, true, true, false)),
    (String ((Ascii (false, true, true, true, false, true, true, false)),
    (String ((Ascii (true, true, true, false, false, true, false, false)),
    (String ((Ascii (false, false, true, false, true, true, true, false)),
    (String ((Ascii (false, false, false, false, false, true, false, false)),
    (String ((Ascii (false, true, false, false, false, true, true, false)),
    (String ((Ascii (true, false, true, false, false, true, true, false)),
    (String ((Ascii (false, false, false, false, false, true, false, false)),
    (String ((Ascii (false, true, false, false, true, true, true, false)),
    (String ((Ascii (true, false, true, false, false, true, true, false)),
    (String ((Ascii (true, true, false, false, true, true, true, false)),
    (String ((Ascii (true, true, true, true, false, true, true, false)),
    (String ((Ascii (false, false, true, true, false, true, true, false)),
    (String ((Ascii (false, true, true, false, true, true, true, false)),
    (String ((Ascii (true, false, true, false, false, true, true, false)),
    (String ((Ascii (false, false, true, false, false, true, true, false)),
    (String ((Ascii (false, true, true, true, false, true, false, false)),
    EmptyString))))))))))))))))))))))))))))))))))))))))))))))))))))))))))))))))))))))))))))))))))))))

(** val msg_unres : str **)

let msg_unres =
  s_ (String ((Ascii (true, false, true, false, true, false, true, false)),
    (String ((Ascii (false, true, true, true, false, true, true, false)),
    (String ((Ascii (false, true, false, false, true, true, true, false)),
    (String ((Ascii (true, false, true, false, false, true, true, false)),
    (String ((Ascii (true, true, false, false, true, true, true, false)),
    (String ((Ascii (true, true, true, true, false, true, true, false)),
    (String ((Ascii (false, false, true, true, false, true, true, false)),
    (String ((Ascii (false, true, true, false, true, true, true, false)),
    (String ((Ascii (true, false, false, false, false, true, true, false)),
    (String ((Ascii (false, true, false, false, false, true, true, false)),
    (String ((Ascii (false, false, true, true, false, true, true, false)),
    (String ((Ascii (true, false, true, false, false, true, true, false)),
    (String ((Ascii (false, false, false, false, false, true, false, false)),
    (String ((Ascii (false, false, true, false, true, true, true, false)),
    (String ((Ascii (true, false, false, true, true, true, true, false)),
    (String ((Ascii (false, false, false, false, true, true, true, false)),
    (String ((Ascii (true, false, true, false, false, true, true, false)),
    (String ((Ascii (false, true, true, true, false, true, false, false)),
    EmptyString))))))))))))))))))))))))))))))))))))

(** val msg_index_key : str **)

let msg_index_key =
  s_ (String ((Ascii (true, false, true, false, true, false, true, false)),
    (String ((Ascii (false, true, true, true, false, true, true, false)),
    (String ((Ascii (true, true, false, false, true, true, true, false)),
    (String ((Ascii (true, false, true, false, true, true, true, false)),
    (String ((Ascii (false, false, false, false, true, true, true, false)),
    (String ((Ascii (false, false, false, false, true, true, true, false)),
    (String ((Ascii (true, true, true, true, false, true, true, false)),
    (String ((Ascii (false, true, false, false, true, true, true, false)),
    (String ((Ascii (false, false, true, false, true, true, true, false)),
    (String ((Ascii (true, false, true, false, false, true, true, false)),
    (String ((Ascii (false, false, true, false, false, true, true, false)),
    (String ((Ascii (false, false, false, false, false, true, false, false)),
    (String ((Ascii (false, false, true, false, true, true, true, false)),
    (String ((Ascii (true, false, false, true, true, true, true, false)),
    (String ((Ascii (false, false, false, false, true, true, true, false)),
    (String ((Ascii (true, false, true, false, false, true, true, false)),
    (String ((Ascii (false, false, false, false, false, true, false, false)),
    (String ((Ascii (true, false, false, false, false, true, true, false)),
    (String ((Ascii (true, true, false, false, true, true, true, false)),
    (String ((Ascii (false, false, false, false, false, true, false, false)),
    (String ((Ascii (true, false, false, true, false, true, true, false)),
    (String ((Ascii (false, true, true, true, false, true, true, false)),
    (String ((Ascii (false, false, true, false, false, true, true, false)),
    (String ((Ascii (true, false, true, false, false, true, true, false)),
    (String ((Ascii (false, false, false, true, true, true, true, false)),
    (String ((Ascii (false, false, false, false, false, true, false, false)),
    (String ((Ascii (true, true, false, true, false, true, true, false)),
    (String ((Ascii (true, false, true, false, false, true, true, false)),
    (String ((Ascii (true, false, false, true, true, true, true, false)),
    (String ((Ascii (false, true, true, true, false, true, false, false)),
    EmptyString))))))))))))))))))))))))))))))))))))))))))))))))))))))))))))

(** val diag : str -> st -> st **)

let diag m s =
  set_diags (app s.diags (m :: [])) s

(** val lit_str_type : node -> str option **)

let lit_str_type ty =
  if is_ty (String ((Ascii (false, false, true, false, true, false, true,
       false)), (String ((Ascii (true, true, false, false, true, true, true,
       false)), (String ((Ascii (false, false, true, true, false, false,
       true, false)), (String ((Ascii (true, false, false, true, false, true,
       true, false)), (String ((Ascii (false, false, true, false, true, true,
       true, false)), (String ((Ascii (true, false, true, false, false, true,
       true, false)), (String ((Ascii (false, true, false, false, true, true,
       true, false)), (String ((Ascii (true, false, false, false, false,
       true, true, false)), (String ((Ascii (false, false, true, true, false,
       true, true, false)), (String ((Ascii (false, false, true, false, true,
       false, true, false)), (String ((Ascii (true, false, false, true, true,
       true, true, false)), (String ((Ascii (false, false, false, false,
       true, true, true, false)), (String ((Ascii (true, false, true, false,
       false, true, true, false)), EmptyString)))))))))))))))))))))))))) ty
  then (match tf (String ((Ascii (false, false, true, true, false, true,
                true, false)), (String ((Ascii (true, false, false, true,
                false, true, true, false)), (String ((Ascii (false, false,
                true, false, true, true, true, false)), (String ((Ascii
                (true, false, true, false, false, true, true, false)),
                (String ((Ascii (false, true, false, false, true, true, true,
                false)), (String ((Ascii (true, false, false, false, false,
                true, true, false)), (String ((Ascii (false, false, true,
                true, false, true, true, false)), EmptyString)))))))))))))) ty with
        | Str (v, _) -> Some v
        | _ -> None)
  else None

(** val ref_ident : node -> (str * coq_N) option **)

let ref_ident ty =
  if is_ty (String ((Ascii (false, false, true, false, true, false, true,
       false)), (String ((Ascii (true, true, false, false, true, true, true,
       false)), (String ((Ascii (false, false, true, false, true, false,
       true, false)), (String ((Ascii (true, false, false, true, true, true,
       true, false)), (String ((Ascii (false, false, false, false, true,
       true, true, false)), (String ((Ascii (true, false, true, false, false,
       true, true, false)), (String ((Ascii (false, true, false, false, true,
       false, true, false)), (String ((Ascii (true, false, true, false,
       false, true, true, false)), (String ((Ascii (false, true, true, false,
       false, true, true, false)), (String ((Ascii (true, false, true, false,
       false, true, true, false)), (String ((Ascii (false, true, false,
       false, true, true, true, false)), (String ((Ascii (true, false, true,
       false, false, true, true, false)), (String ((Ascii (false, true, true,
       true, false, true, true, false)), (String ((Ascii (true, true, false,
       false, false, true, true, false)), (String ((Ascii (true, false, true,
       false, false, true, true, false)),
       EmptyString)))))))))))))))))))))))))))))) ty
  then (match tf (String ((Ascii (false, false, true, false, true, true,
                true, false)), (String ((Ascii (true, false, false, true,
                true, true, true, false)), (String ((Ascii (false, false,
                false, false, true, true, true, false)), (String ((Ascii
                (true, false, true, false, false, true, true, false)),
                (String ((Ascii (false, true, true, true, false, false, true,
                false)), (String ((Ascii (true, false, false, false, false,
                true, true, false)), (String ((Ascii (true, false, true,
                true, false, true, true, false)), (String ((Ascii (true,
                false, true, false, false, true, true, false)),
                EmptyString)))))))))))))))) ty with
        | Ident (s, c, _) -> Some (s, c)
        | _ -> None)
  else None

(** val rsus : env -> nat -> node -> st -> str list * st **)

let rec rsus e fuel ty s =
  match fuel with
  | O -> ([], (panic s))
  | S f ->
    (match lit_str_type ty with
     | Some v -> ((v :: []), s)
     | None ->
       if is_ty (String ((Ascii (false, false, true, false, true, false,
            true, false)), (String ((Ascii (true, true, false, false, true,
            true, true, false)), (String ((Ascii (true, false, true, false,
            true, false, true, false)), (String ((Ascii (false, true, true,
            true, false, true, true, false)), (String ((Ascii (true, false,
            false, true, false, true, true, false)), (String ((Ascii (true,
            true, true, true, false, true, true, false)), (String ((Ascii
            (false, true, true, true, false, true, true, false)), (String
            ((Ascii (false, false, true, false, true, false, true, false)),
            (String ((Ascii (true, false, false, true, true, true, true,
            false)), (String ((Ascii (false, false, false, false, true, true,
            true, false)), (String ((Ascii (true, false, true, false, false,
            true, true, false)), EmptyString)))))))))))))))))))))) ty
       then fold_left (fun pat t ->
              let (acc, s0) = pat in
              (match lit_str_type t with
               | Some v -> ((app acc (v :: [])), s0)
               | None -> let (l, s1) = rsus e f t s0 in ((app acc l), s1)))
              (tlist (String ((Ascii (false, false, true, false, true, true,
                true, false)), (String ((Ascii (true, false, false, true,
                true, true, true, false)), (String ((Ascii (false, false,
                false, false, true, true, true, false)), (String ((Ascii
                (true, false, true, false, false, true, true, false)),
                (String ((Ascii (true, true, false, false, true, true, true,
                false)), EmptyString)))))))))) ty) ([], s)
       else (match ref_ident ty with
             | Some p ->
               let (sym, c) = p in
               (match reg_get sym c s.aliases with
                | Some aliased -> rsus e f aliased s
                | None ->
                  if N.eqb c e.e_unres
                  then ([], (diag msg_unres_ref s))
                  else ([], (diag msg_other_mod s)))
             | None -> ([], (diag msg_index_key s))))

(** val fn_ref : node **)

let fn_ref =
  gobj (String ((Ascii (false, false, true, false, true, false, true,
    false)), (String ((Ascii (true, true, false, false, true, true, true,
    false)), (String ((Ascii (false, false, true, false, true, false, true,
    false)), (String ((Ascii (true, false, false, true, true, true, true,
    false)), (String ((Ascii (false, false, false, false, true, true, true,
    false)), (String ((Ascii (true, false, true, false, false, true, true,
    false)), (String ((Ascii (false, true, false, false, true, false, true,
    false)), (String ((Ascii (true, false, true, false, false, true, true,
    false)), (String ((Ascii (false, true, true, false, false, true, true,
    false)), (String ((Ascii (true, false, true, false, false, true, true,
    false)), (String ((Ascii (false, true, false, false, true, true, true,
    false)), (String ((Ascii (true, false, true, false, false, true, true,
    false)), (String ((Ascii (false, true, true, true, false, true, true,
    false)), (String ((Ascii (true, true, false, false, false, true, true,
    false)), (String ((Ascii (true, false, true, false, false, true, true,
    false)), EmptyString))))))))))))))))))))))))))))))
    ((fld (String ((Ascii (false, false, true, false, true, true, true,
       false)), (String ((Ascii (true, false, false, true, true, true, true,
       false)), (String ((Ascii (false, false, false, false, true, true,
       true, false)), (String ((Ascii (true, false, true, false, false, true,
       true, false)), (String ((Ascii (false, true, true, true, false, false,
       true, false)), (String ((Ascii (true, false, false, false, false,
       true, true, false)), (String ((Ascii (true, false, true, true, false,
       true, true, false)), (String ((Ascii (true, false, true, false, false,
       true, true, false)), EmptyString)))))))))))))))) (Ident
       ((s_ (String ((Ascii (false, true, true, false, false, false, true,
          false)), (String ((Ascii (true, false, true, false, true, true,
          true, false)), (String ((Ascii (false, true, true, true, false,
          true, true, false)), (String ((Ascii (true, true, false, false,
          false, true, true, false)), (String ((Ascii (false, false, true,
          false, true, true, true, false)), (String ((Ascii (true, false,
          false, true, false, true, true, false)), (String ((Ascii (true,
          true, true, true, false, true, true, false)), (String ((Ascii
          (false, true, true, true, false, true, true, false)),
          EmptyString))))))))))))))))), N0, false))) :: ((fld (String ((Ascii
                                                           (false, false,
                                                           true, false, true,
                                                           true, true,
                                                           false)), (String
                                                           ((Ascii (true,
                                                           false, false,
                                                           true, true, true,
                                                           true, false)),
                                                           (String ((Ascii
                                                           (false, false,
                                                           false, false,
                                                           true, true, true,
                                                           false)), (String
                                                           ((Ascii (true,
                                                           false, true,
                                                           false, false,
                                                           true, true,
                                                           false)), (String
                                                           ((Ascii (false,
                                                           false, false,
                                                           false, true,
                                                           false, true,
                                                           false)), (String
                                                           ((Ascii (true,
                                                           false, false,
                                                           false, false,
                                                           true, true,
                                                           false)), (String
                                                           ((Ascii (false,
                                                           true, false,
                                                           false, true, true,
                                                           true, false)),
                                                           (String ((Ascii
                                                           (true, false,
                                                           false, false,
                                                           false, true, true,
                                                           false)), (String
                                                           ((Ascii (true,
                                                           false, true, true,
                                                           false, true, true,
                                                           false)), (String
                                                           ((Ascii (true,
                                                           true, false,
                                                           false, true, true,
                                                           true, false)),
                                                           EmptyString))))))))))))))))))))
                                                           nnull) :: []))

(** val mk_union : node list -> node **)

let mk_union tys =
  gobj (String ((Ascii (false, false, true, false, true, false, true,
    false)), (String ((Ascii (true, true, false, false, true, true, true,
    false)), (String ((Ascii (true, false, true, false, true, false, true,
    false)), (String ((Ascii (false, true, true, true, false, true, true,
    false)), (String ((Ascii (true, false, false, true, false, true, true,
    false)), (String ((Ascii (true, true, true, true, false, true, true,
    false)), (String ((Ascii (false, true, true, true, false, true, true,
    false)), (String ((Ascii (false, false, true, false, true, false, true,
    false)), (String ((Ascii (true, false, false, true, true, true, true,
    false)), (String ((Ascii (false, false, false, false, true, true, true,
    false)), (String ((Ascii (true, false, true, false, false, true, true,
    false)), EmptyString))))))))))))))))))))))
    ((fld (String ((Ascii (false, false, true, false, true, true, true,
       false)), (String ((Ascii (true, false, false, true, true, true, true,
       false)), (String ((Ascii (false, false, false, false, true, true,
       true, false)), (String ((Ascii (true, false, true, false, false, true,
       true, false)), (String ((Ascii (true, true, false, false, true, true,
       true, false)), EmptyString)))))))))) (NArr tys)) :: [])

(** val is_kw : string -> node -> bool **)

let is_kw k ty =
  (&&)
    (is_ty (String ((Ascii (false, false, true, false, true, false, true,
      false)), (String ((Ascii (true, true, false, false, true, true, true,
      false)), (String ((Ascii (true, true, false, true, false, false, true,
      false)), (String ((Ascii (true, false, true, false, false, true, true,
      false)), (String ((Ascii (true, false, false, true, true, true, true,
      false)), (String ((Ascii (true, true, true, false, true, true, true,
      false)), (String ((Ascii (true, true, true, true, false, true, true,
      false)), (String ((Ascii (false, true, false, false, true, true, true,
      false)), (String ((Ascii (false, false, true, false, false, true, true,
      false)), (String ((Ascii (false, false, true, false, true, false, true,
      false)), (String ((Ascii (true, false, false, true, true, true, true,
      false)), (String ((Ascii (false, false, false, false, true, true, true,
      false)), (String ((Ascii (true, false, true, false, false, true, true,
      false)), EmptyString)))))))))))))))))))))))))) ty)
    (match tf (String ((Ascii (true, true, false, true, false, true, true,
             false)), (String ((Ascii (true, false, false, true, false, true,
             true, false)), (String ((Ascii (false, true, true, true, false,
             true, true, false)), (String ((Ascii (false, false, true, false,
             false, true, true, false)), EmptyString)))))))) ty with
     | NScalar j -> (match j with
                     | JStr x -> sq k x
                     | _ -> false)
     | _ -> false)

(** val is_num_lit_type : node -> str option **)

let is_num_lit_type ty =
  if is_ty (String ((Ascii (false, false, true, false, true, false, true,
       false)), (String ((Ascii (true, true, false, false, true, true, true,
       false)), (String ((Ascii (false, false, true, true, false, false,
       true, false)), (String ((Ascii (true, false, false, true, false, true,
       true, false)), (String ((Ascii (false, false, true, false, true, true,
       true, false)), (String ((Ascii (true, false, true, false, false, true,
       true, false)), (String ((Ascii (false, true, false, false, true, true,
       true, false)), (String ((Ascii (true, false, false, false, false,
       true, true, false)), (String ((Ascii (false, false, true, true, false,
       true, true, false)), (String ((Ascii (false, false, true, false, true,
       false, true, false)), (String ((Ascii (true, false, false, true, true,
       true, true, false)), (String ((Ascii (false, false, false, false,
       true, true, true, false)), (String ((Ascii (true, false, true, false,
       false, true, true, false)), EmptyString)))))))))))))))))))))))))) ty
  then (match tf (String ((Ascii (false, false, true, true, false, true,
                true, false)), (String ((Ascii (true, false, false, true,
                false, true, true, false)), (String ((Ascii (false, false,
                true, false, true, true, true, false)), (String ((Ascii
                (true, false, true, false, false, true, true, false)),
                (String ((Ascii (false, true, false, false, true, true, true,
                false)), (String ((Ascii (true, false, false, false, false,
                true, true, false)), (String ((Ascii (false, false, true,
                true, false, true, true, false)), EmptyString)))))))))))))) ty with
        | Num (v, _) -> Some v
        | _ -> None)
  else None

(** val index_all_string : node list -> node list **)

let index_all_string members =
  fold_right (fun m acc ->
    if (||)
         (is_ty (String ((Ascii (false, false, true, false, true, false,
           true, false)), (String ((Ascii (true, true, false, false, true,
           true, true, false)), (String ((Ascii (false, false, false, false,
           true, false, true, false)), (String ((Ascii (false, true, false,
           false, true, true, true, false)), (String ((Ascii (true, true,
           true, true, false, true, true, false)), (String ((Ascii (false,
           false, false, false, true, true, true, false)), (String ((Ascii
           (true, false, true, false, false, true, true, false)), (String
           ((Ascii (false, true, false, false, true, true, true, false)),
           (String ((Ascii (false, false, true, false, true, true, true,
           false)), (String ((Ascii (true, false, false, true, true, true,
           true, false)), (String ((Ascii (true, true, false, false, true,
           false, true, false)), (String ((Ascii (true, false, false, true,
           false, true, true, false)), (String ((Ascii (true, true, true,
           false, false, true, true, false)), (String ((Ascii (false, true,
           true, true, false, true, true, false)), (String ((Ascii (true,
           false, false, false, false, true, true, false)), (String ((Ascii
           (false, false, true, false, true, true, true, false)), (String
           ((Ascii (true, false, true, false, true, true, true, false)),
           (String ((Ascii (false, true, false, false, true, true, true,
           false)), (String ((Ascii (true, false, true, false, false, true,
           true, false)), EmptyString)))))))))))))))))))))))))))))))))))))) m)
         (is_ty (String ((Ascii (false, false, true, false, true, false,
           true, false)), (String ((Ascii (true, true, false, false, true,
           true, true, false)), (String ((Ascii (true, true, true, false,
           false, false, true, false)), (String ((Ascii (true, false, true,
           false, false, true, true, false)), (String ((Ascii (false, false,
           true, false, true, true, true, false)), (String ((Ascii (false,
           false, true, false, true, true, true, false)), (String ((Ascii
           (true, false, true, false, false, true, true, false)), (String
           ((Ascii (false, true, false, false, true, true, true, false)),
           (String ((Ascii (true, true, false, false, true, false, true,
           false)), (String ((Ascii (true, false, false, true, false, true,
           true, false)), (String ((Ascii (true, true, true, false, false,
           true, true, false)), (String ((Ascii (false, true, true, true,
           false, true, true, false)), (String ((Ascii (true, false, false,
           false, false, true, true, false)), (String ((Ascii (false, false,
           true, false, true, true, true, false)), (String ((Ascii (true,
           false, true, false, true, true, true, false)), (String ((Ascii
           (false, true, false, false, true, true, true, false)), (String
           ((Ascii (true, false, true, false, false, true, true, false)),
           EmptyString)))))))))))))))))))))))))))))))))) m)
    then (match tf (String ((Ascii (true, true, false, true, false, true,
                  true, false)), (String ((Ascii (true, false, true, false,
                  false, true, true, false)), (String ((Ascii (true, false,
                  false, true, true, true, true, false)), EmptyString)))))) m with
          | Ident (_, _, _) ->
            (match ann_type
                     (tf (String ((Ascii (false, false, true, false, true,
                       true, true, false)), (String ((Ascii (true, false,
                       false, true, true, true, true, false)), (String
                       ((Ascii (false, false, false, false, true, true, true,
                       false)), (String ((Ascii (true, false, true, false,
                       false, true, true, false)), (String ((Ascii (true,
                       false, false, false, false, false, true, false)),
                       (String ((Ascii (false, true, true, true, false, true,
                       true, false)), (String ((Ascii (false, true, true,
                       true, false, true, true, false)), (String ((Ascii
                       (true, true, true, true, false, true, true, false)),
                       (String ((Ascii (false, false, true, false, true,
                       true, true, false)), (String ((Ascii (true, false,
                       false, false, false, true, true, false)), (String
                       ((Ascii (false, false, true, false, true, true, true,
                       false)), (String ((Ascii (true, false, false, true,
                       false, true, true, false)), (String ((Ascii (true,
                       true, true, true, false, true, true, false)), (String
                       ((Ascii (false, true, true, true, false, true, true,
                       false)), EmptyString)))))))))))))))))))))))))))) m) with
             | Some t -> t :: acc
             | None -> acc)
          | Str (_, _) ->
            (match ann_type
                     (tf (String ((Ascii (false, false, true, false, true,
                       true, true, false)), (String ((Ascii (true, false,
                       false, true, true, true, true, false)), (String
                       ((Ascii (false, false, false, false, true, true, true,
                       false)), (String ((Ascii (true, false, true, false,
                       false, true, true, false)), (String ((Ascii (true,
                       false, false, false, false, false, true, false)),
                       (String ((Ascii (false, true, true, true, false, true,
                       true, false)), (String ((Ascii (false, true, true,
                       true, false, true, true, false)), (String ((Ascii
                       (true, true, true, true, false, true, true, false)),
                       (String ((Ascii (false, false, true, false, true,
                       true, true, false)), (String ((Ascii (true, false,
                       false, false, false, true, true, false)), (String
                       ((Ascii (false, false, true, false, true, true, true,
                       false)), (String ((Ascii (true, false, false, true,
                       false, true, true, false)), (String ((Ascii (true,
                       true, true, true, false, true, true, false)), (String
                       ((Ascii (false, true, true, true, false, true, true,
                       false)), EmptyString)))))))))))))))))))))))))))) m) with
             | Some t -> t :: acc
             | None -> acc)
          | _ -> acc)
    else if is_ty (String ((Ascii (false, false, true, false, true, false,
              true, false)), (String ((Ascii (true, true, false, false, true,
              true, true, false)), (String ((Ascii (true, false, false, true,
              false, false, true, false)), (String ((Ascii (false, true,
              true, true, false, true, true, false)), (String ((Ascii (false,
              false, true, false, false, true, true, false)), (String ((Ascii
              (true, false, true, false, false, true, true, false)), (String
              ((Ascii (false, false, false, true, true, true, true, false)),
              (String ((Ascii (true, true, false, false, true, false, true,
              false)), (String ((Ascii (true, false, false, true, false,
              true, true, false)), (String ((Ascii (true, true, true, false,
              false, true, true, false)), (String ((Ascii (false, true, true,
              true, false, true, true, false)), (String ((Ascii (true, false,
              false, false, false, true, true, false)), (String ((Ascii
              (false, false, true, false, true, true, true, false)), (String
              ((Ascii (true, false, true, false, true, true, true, false)),
              (String ((Ascii (false, true, false, false, true, true, true,
              false)), (String ((Ascii (true, false, true, false, false,
              true, true, false)),
              EmptyString)))))))))))))))))))))))))))))))) m
         then (match ann_type
                       (tf (String ((Ascii (false, false, true, false, true,
                         true, true, false)), (String ((Ascii (true, false,
                         false, true, true, true, true, false)), (String
                         ((Ascii (false, false, false, false, true, true,
                         true, false)), (String ((Ascii (true, false, true,
                         false, false, true, true, false)), (String ((Ascii
                         (true, false, false, false, false, false, true,
                         false)), (String ((Ascii (false, true, true, true,
                         false, true, true, false)), (String ((Ascii (false,
                         true, true, true, false, true, true, false)),
                         (String ((Ascii (true, true, true, true, false,
                         true, true, false)), (String ((Ascii (false, false,
                         true, false, true, true, true, false)), (String
                         ((Ascii (true, false, false, false, false, true,
                         true, false)), (String ((Ascii (false, false, true,
                         false, true, true, true, false)), (String ((Ascii
                         (true, false, false, true, false, true, true,
                         false)), (String ((Ascii (true, true, true, true,
                         false, true, true, false)), (String ((Ascii (false,
                         true, true, true, false, true, true, false)),
                         EmptyString)))))))))))))))))))))))))))) m) with
               | Some t -> t :: acc
               | None -> acc)
         else if is_ty (String ((Ascii (false, false, true, false, true,
                   false, true, false)), (String ((Ascii (true, true, false,
                   false, true, true, true, false)), (String ((Ascii (true,
                   false, true, true, false, false, true, false)), (String
                   ((Ascii (true, false, true, false, false, true, true,
                   false)), (String ((Ascii (false, false, true, false, true,
                   true, true, false)), (String ((Ascii (false, false, false,
                   true, false, true, true, false)), (String ((Ascii (true,
                   true, true, true, false, true, true, false)), (String
                   ((Ascii (false, false, true, false, false, true, true,
                   false)), (String ((Ascii (true, true, false, false, true,
                   false, true, false)), (String ((Ascii (true, false, false,
                   true, false, true, true, false)), (String ((Ascii (true,
                   true, true, false, false, true, true, false)), (String
                   ((Ascii (false, true, true, true, false, true, true,
                   false)), (String ((Ascii (true, false, false, false,
                   false, true, true, false)), (String ((Ascii (false, false,
                   true, false, true, true, true, false)), (String ((Ascii
                   (true, false, true, false, true, true, true, false)),
                   (String ((Ascii (false, true, false, false, true, true,
                   true, false)), (String ((Ascii (true, false, true, false,
                   false, true, true, false)),
                   EmptyString)))))))))))))))))))))))))))))))))) m
              then fn_ref :: acc
              else acc) [] members

(** val index_by_keys : str list -> node list -> node list **)

let index_by_keys keys members =
  fold_right (fun m acc ->
    if (||)
         (is_ty (String ((Ascii (false, false, true, false, true, false,
           true, false)), (String ((Ascii (true, true, false, false, true,
           true, true, false)), (String ((Ascii (false, false, false, false,
           true, false, true, false)), (String ((Ascii (false, true, false,
           false, true, true, true, false)), (String ((Ascii (true, true,
           true, true, false, true, true, false)), (String ((Ascii (false,
           false, false, false, true, true, true, false)), (String ((Ascii
           (true, false, true, false, false, true, true, false)), (String
           ((Ascii (false, true, false, false, true, true, true, false)),
           (String ((Ascii (false, false, true, false, true, true, true,
           false)), (String ((Ascii (true, false, false, true, true, true,
           true, false)), (String ((Ascii (true, true, false, false, true,
           false, true, false)), (String ((Ascii (true, false, false, true,
           false, true, true, false)), (String ((Ascii (true, true, true,
           false, false, true, true, false)), (String ((Ascii (false, true,
           true, true, false, true, true, false)), (String ((Ascii (true,
           false, false, false, false, true, true, false)), (String ((Ascii
           (false, false, true, false, true, true, true, false)), (String
           ((Ascii (true, false, true, false, true, true, true, false)),
           (String ((Ascii (false, true, false, false, true, true, true,
           false)), (String ((Ascii (true, false, true, false, false, true,
           true, false)), EmptyString)))))))))))))))))))))))))))))))))))))) m)
         (is_ty (String ((Ascii (false, false, true, false, true, false,
           true, false)), (String ((Ascii (true, true, false, false, true,
           true, true, false)), (String ((Ascii (true, true, true, false,
           false, false, true, false)), (String ((Ascii (true, false, true,
           false, false, true, true, false)), (String ((Ascii (false, false,
           true, false, true, true, true, false)), (String ((Ascii (false,
           false, true, false, true, true, true, false)), (String ((Ascii
           (true, false, true, false, false, true, true, false)), (String
           ((Ascii (false, true, false, false, true, true, true, false)),
           (String ((Ascii (true, true, false, false, true, false, true,
           false)), (String ((Ascii (true, false, false, true, false, true,
           true, false)), (String ((Ascii (true, true, true, false, false,
           true, true, false)), (String ((Ascii (false, true, true, true,
           false, true, true, false)), (String ((Ascii (true, false, false,
           false, false, true, true, false)), (String ((Ascii (false, false,
           true, false, true, true, true, false)), (String ((Ascii (true,
           false, true, false, true, true, true, false)), (String ((Ascii
           (false, true, false, false, true, true, true, false)), (String
           ((Ascii (true, false, true, false, false, true, true, false)),
           EmptyString)))))))))))))))))))))))))))))))))) m)
    then (match key_name
                  (tf (String ((Ascii (true, true, false, true, false, true,
                    true, false)), (String ((Ascii (true, false, true, false,
                    false, true, true, false)), (String ((Ascii (true, false,
                    false, true, true, true, true, false)), EmptyString))))))
                    m) with
          | Some k ->
            if mem_str k keys
            then (match ann_type
                          (tf (String ((Ascii (false, false, true, false,
                            true, true, true, false)), (String ((Ascii (true,
                            false, false, true, true, true, true, false)),
                            (String ((Ascii (false, false, false, false,
                            true, true, true, false)), (String ((Ascii (true,
                            false, true, false, false, true, true, false)),
                            (String ((Ascii (true, false, false, false,
                            false, false, true, false)), (String ((Ascii
                            (false, true, true, true, false, true, true,
                            false)), (String ((Ascii (false, true, true,
                            true, false, true, true, false)), (String ((Ascii
                            (true, true, true, true, false, true, true,
                            false)), (String ((Ascii (false, false, true,
                            false, true, true, true, false)), (String ((Ascii
                            (true, false, false, false, false, true, true,
                            false)), (String ((Ascii (false, false, true,
                            false, true, true, true, false)), (String ((Ascii
                            (true, false, false, true, false, true, true,
                            false)), (String ((Ascii (true, true, true, true,
                            false, true, true, false)), (String ((Ascii
                            (false, true, true, true, false, true, true,
                            false)), EmptyString))))))))))))))))))))))))))))
                            m) with
                  | Some t -> t :: acc
                  | None -> acc)
            else acc
          | None -> acc)
    else if is_ty (String ((Ascii (false, false, true, false, true, false,
              true, false)), (String ((Ascii (true, true, false, false, true,
              true, true, false)), (String ((Ascii (true, false, true, true,
              false, false, true, false)), (String ((Ascii (true, false,
              true, false, false, true, true, false)), (String ((Ascii
              (false, false, true, false, true, true, true, false)), (String
              ((Ascii (false, false, false, true, false, true, true, false)),
              (String ((Ascii (true, true, true, true, false, true, true,
              false)), (String ((Ascii (false, false, true, false, false,
              true, true, false)), (String ((Ascii (true, true, false, false,
              true, false, true, false)), (String ((Ascii (true, false,
              false, true, false, true, true, false)), (String ((Ascii (true,
              true, true, false, false, true, true, false)), (String ((Ascii
              (false, true, true, true, false, true, true, false)), (String
              ((Ascii (true, false, false, false, false, true, true, false)),
              (String ((Ascii (false, false, true, false, true, true, true,
              false)), (String ((Ascii (true, false, true, false, true, true,
              true, false)), (String ((Ascii (false, true, false, false,
              true, true, true, false)), (String ((Ascii (true, false, true,
              false, false, true, true, false)),
              EmptyString)))))))))))))))))))))))))))))))))) m
         then (match key_name
                       (tf (String ((Ascii (true, true, false, true, false,
                         true, true, false)), (String ((Ascii (true, false,
                         true, false, false, true, true, false)), (String
                         ((Ascii (true, false, false, true, true, true, true,
                         false)), EmptyString)))))) m) with
               | Some k -> if mem_str k keys then fn_ref :: acc else acc
               | None -> acc)
         else acc) [] members

(** val select_members :
    env -> nat -> node list -> node -> st -> node option * st **)

let select_members e fuel members index s =
  if is_kw (String ((Ascii (true, true, false, false, true, true, true,
       false)), (String ((Ascii (false, false, true, false, true, true, true,
       false)), (String ((Ascii (false, true, false, false, true, true, true,
       false)), (String ((Ascii (true, false, false, true, false, true, true,
       false)), (String ((Ascii (false, true, true, true, false, true, true,
       false)), (String ((Ascii (true, true, true, false, false, true, true,
       false)), EmptyString)))))))))))) index
  then let props = index_all_string members in
       (match props with
        | [] -> ((Some (mk_union props)), s)
        | t :: l ->
          (match l with
           | [] -> ((Some t), s)
           | _ :: _ -> ((Some (mk_union props)), s)))
  else if (||)
            ((||)
              (match lit_str_type index with
               | Some _ -> true
               | None -> false)
              (is_ty (String ((Ascii (false, false, true, false, true, false,
                true, false)), (String ((Ascii (true, true, false, false,
                true, true, true, false)), (String ((Ascii (true, false,
                true, false, true, false, true, false)), (String ((Ascii
                (false, true, true, true, false, true, true, false)), (String
                ((Ascii (true, false, false, true, false, true, true,
                false)), (String ((Ascii (true, true, true, true, false,
                true, true, false)), (String ((Ascii (false, true, true,
                true, false, true, true, false)), (String ((Ascii (false,
                false, true, false, true, false, true, false)), (String
                ((Ascii (true, false, false, true, true, true, true, false)),
                (String ((Ascii (false, false, false, false, true, true,
                true, false)), (String ((Ascii (true, false, true, false,
                false, true, true, false)), EmptyString))))))))))))))))))))))
                index))
            (is_ty (String ((Ascii (false, false, true, false, true, false,
              true, false)), (String ((Ascii (true, true, false, false, true,
              true, true, false)), (String ((Ascii (false, false, true,
              false, true, false, true, false)), (String ((Ascii (true,
              false, false, true, true, true, true, false)), (String ((Ascii
              (false, false, false, false, true, true, true, false)), (String
              ((Ascii (true, false, true, false, false, true, true, false)),
              (String ((Ascii (false, true, false, false, true, false, true,
              false)), (String ((Ascii (true, false, true, false, false,
              true, true, false)), (String ((Ascii (false, true, true, false,
              false, true, true, false)), (String ((Ascii (true, false, true,
              false, false, true, true, false)), (String ((Ascii (false,
              true, false, false, true, true, true, false)), (String ((Ascii
              (true, false, true, false, false, true, true, false)), (String
              ((Ascii (false, true, true, true, false, true, true, false)),
              (String ((Ascii (true, true, false, false, false, true, true,
              false)), (String ((Ascii (true, false, true, false, false,
              true, true, false)), EmptyString))))))))))))))))))))))))))))))
              index)
       then let (keys, s0) = rsus e fuel index s in
            let props = index_by_keys keys members in
            (match props with
             | [] -> ((Some (mk_union props)), s0)
             | t :: l ->
               (match l with
                | [] -> ((Some t), s0)
                | _ :: _ -> ((Some (mk_union props)), s0)))
       else let props = [] in
            (match props with
             | [] -> ((Some (mk_union props)), s)
             | t :: l ->
               (match l with
                | [] -> ((Some t), s)
                | _ :: _ -> ((Some (mk_union props)), s)))

(** val usize_of_num : str -> nat option **)

let usize_of_num v = match v with
| [] ->
  if existsb (fun c ->
       (||)
         (N.eqb c (Npos (Coq_xI (Coq_xO (Coq_xI (Coq_xO (Coq_xO (Coq_xI
           Coq_xH))))))))
         (N.eqb c (Npos (Coq_xI (Coq_xO (Coq_xI (Coq_xO (Coq_xO (Coq_xO
           Coq_xH))))))))) v
  then None
  else (match coq_N_of_dec
                (hd []
                  (split_on (Npos (Coq_xO (Coq_xI (Coq_xI (Coq_xI (Coq_xO
                    Coq_xH)))))) v)) with
        | Some n -> Some (N.to_nat n)
        | None -> Some O)
| n :: _ ->
  (match n with
   | N0 ->
     if existsb (fun c ->
          (||)
            (N.eqb c (Npos (Coq_xI (Coq_xO (Coq_xI (Coq_xO (Coq_xO (Coq_xI
              Coq_xH))))))))
            (N.eqb c (Npos (Coq_xI (Coq_xO (Coq_xI (Coq_xO (Coq_xO (Coq_xO
              Coq_xH))))))))) v
     then None
     else (match coq_N_of_dec
                   (hd []
                     (split_on (Npos (Coq_xO (Coq_xI (Coq_xI (Coq_xI (Coq_xO
                       Coq_xH)))))) v)) with
           | Some n0 -> Some (N.to_nat n0)
           | None -> Some O)
   | Npos p ->
     (match p with
      | Coq_xI p0 ->
        (match p0 with
         | Coq_xO p1 ->
           (match p1 with
            | Coq_xI p2 ->
              (match p2 with
               | Coq_xI p3 ->
                 (match p3 with
                  | Coq_xO p4 ->
                    (match p4 with
                     | Coq_xH -> Some O
                     | _ ->
                       if existsb (fun c ->
                            (||)
                              (N.eqb c (Npos (Coq_xI (Coq_xO (Coq_xI (Coq_xO
                                (Coq_xO (Coq_xI Coq_xH))))))))
                              (N.eqb c (Npos (Coq_xI (Coq_xO (Coq_xI (Coq_xO
                                (Coq_xO (Coq_xO Coq_xH))))))))) v
                       then None
                       else (match coq_N_of_dec
                                     (hd []
                                       (split_on (Npos (Coq_xO (Coq_xI
                                         (Coq_xI (Coq_xI (Coq_xO Coq_xH))))))
                                         v)) with
                             | Some n0 -> Some (N.to_nat n0)
                             | None -> Some O))
                  | _ ->
                    if existsb (fun c ->
                         (||)
                           (N.eqb c (Npos (Coq_xI (Coq_xO (Coq_xI (Coq_xO
                             (Coq_xO (Coq_xI Coq_xH))))))))
                           (N.eqb c (Npos (Coq_xI (Coq_xO (Coq_xI (Coq_xO
                             (Coq_xO (Coq_xO Coq_xH))))))))) v
                    then None
                    else (match coq_N_of_dec
                                  (hd []
                                    (split_on (Npos (Coq_xO (Coq_xI (Coq_xI
                                      (Coq_xI (Coq_xO Coq_xH)))))) v)) with
                          | Some n0 -> Some (N.to_nat n0)
                          | None -> Some O))
               | _ ->
                 if existsb (fun c ->
                      (||)
                        (N.eqb c (Npos (Coq_xI (Coq_xO (Coq_xI (Coq_xO
                          (Coq_xO (Coq_xI Coq_xH))))))))
                        (N.eqb c (Npos (Coq_xI (Coq_xO (Coq_xI (Coq_xO
                          (Coq_xO (Coq_xO Coq_xH))))))))) v
                 then None
                 else (match coq_N_of_dec
                               (hd []
                                 (split_on (Npos (Coq_xO (Coq_xI (Coq_xI
                                   (Coq_xI (Coq_xO Coq_xH)))))) v)) with
                       | Some n0 -> Some (N.to_nat n0)
                       | None -> Some O))
            | _ ->
              if existsb (fun c ->
                   (||)
                     (N.eqb c (Npos (Coq_xI (Coq_xO (Coq_xI (Coq_xO (Coq_xO
                       (Coq_xI Coq_xH))))))))
                     (N.eqb c (Npos (Coq_xI (Coq_xO (Coq_xI (Coq_xO (Coq_xO
                       (Coq_xO Coq_xH))))))))) v
              then None
              else (match coq_N_of_dec
                            (hd []
                              (split_on (Npos (Coq_xO (Coq_xI (Coq_xI (Coq_xI
                                (Coq_xO Coq_xH)))))) v)) with
                    | Some n0 -> Some (N.to_nat n0)
                    | None -> Some O))
         | _ ->
           if existsb (fun c ->
                (||)
                  (N.eqb c (Npos (Coq_xI (Coq_xO (Coq_xI (Coq_xO (Coq_xO
                    (Coq_xI Coq_xH))))))))
                  (N.eqb c (Npos (Coq_xI (Coq_xO (Coq_xI (Coq_xO (Coq_xO
                    (Coq_xO Coq_xH))))))))) v
           then None
           else (match coq_N_of_dec
                         (hd []
                           (split_on (Npos (Coq_xO (Coq_xI (Coq_xI (Coq_xI
                             (Coq_xO Coq_xH)))))) v)) with
                 | Some n0 -> Some (N.to_nat n0)
                 | None -> Some O))
      | _ ->
        if existsb (fun c ->
             (||)
               (N.eqb c (Npos (Coq_xI (Coq_xO (Coq_xI (Coq_xO (Coq_xO (Coq_xI
                 Coq_xH))))))))
               (N.eqb c (Npos (Coq_xI (Coq_xO (Coq_xI (Coq_xO (Coq_xO (Coq_xO
                 Coq_xH))))))))) v
        then None
        else (match coq_N_of_dec
                      (hd []
                        (split_on (Npos (Coq_xO (Coq_xI (Coq_xI (Coq_xI
                          (Coq_xO Coq_xH)))))) v)) with
              | Some n0 -> Some (N.to_nat n0)
              | None -> Some O)))

(** val ria : env -> nat -> node -> node -> st -> node option * st **)

let rec ria e fuel obj index s =
  match fuel with
  | O -> (None, (panic s))
  | S f ->
    (match ref_ident obj with
     | Some p ->
       let (sym, c) = p in
       (match reg_get sym c s.aliases with
        | Some aliased -> ria e f aliased index s
        | None ->
          (match reg_get sym c s.interfaces with
           | Some i -> select_members e f (iface_body i) index s
           | None ->
             if (&&) (N.eqb c e.e_unres)
                  (sq (String ((Ascii (true, false, false, false, false,
                    false, true, false)), (String ((Ascii (false, true,
                    false, false, true, true, true, false)), (String ((Ascii
                    (false, true, false, false, true, true, true, false)),
                    (String ((Ascii (true, false, false, false, false, true,
                    true, false)), (String ((Ascii (true, false, false, true,
                    true, true, true, false)), EmptyString)))))))))) sym)
             then ((match type_params obj with
                    | [] -> None
                    | t :: _ -> Some t), s)
             else (None, s)))
     | None ->
       if is_ty (String ((Ascii (false, false, true, false, true, false,
            true, false)), (String ((Ascii (true, true, false, false, true,
            true, true, false)), (String ((Ascii (false, false, true, false,
            true, false, true, false)), (String ((Ascii (true, false, false,
            true, true, true, true, false)), (String ((Ascii (false, false,
            false, false, true, true, true, false)), (String ((Ascii (true,
            false, true, false, false, true, true, false)), (String ((Ascii
            (false, false, true, true, false, false, true, false)), (String
            ((Ascii (true, false, false, true, false, true, true, false)),
            (String ((Ascii (false, false, true, false, true, true, true,
            false)), (String ((Ascii (true, false, true, false, false, true,
            true, false)), (String ((Ascii (false, true, false, false, true,
            true, true, false)), (String ((Ascii (true, false, false, false,
            false, true, true, false)), (String ((Ascii (false, false, true,
            true, false, true, true, false)),
            EmptyString)))))))))))))))))))))))))) obj
       then select_members e f
              (tlist (String ((Ascii (true, false, true, true, false, true,
                true, false)), (String ((Ascii (true, false, true, false,
                false, true, true, false)), (String ((Ascii (true, false,
                true, true, false, true, true, false)), (String ((Ascii
                (false, true, false, false, false, true, true, false)),
                (String ((Ascii (true, false, true, false, false, true, true,
                false)), (String ((Ascii (false, true, false, false, true,
                true, true, false)), (String ((Ascii (true, true, false,
                false, true, true, true, false)), EmptyString))))))))))))))
                obj) index s
       else if is_ty (String ((Ascii (false, false, true, false, true, false,
                 true, false)), (String ((Ascii (true, true, false, false,
                 true, true, true, false)), (String ((Ascii (true, false,
                 false, false, false, false, true, false)), (String ((Ascii
                 (false, true, false, false, true, true, true, false)),
                 (String ((Ascii (false, true, false, false, true, true,
                 true, false)), (String ((Ascii (true, false, false, false,
                 false, true, true, false)), (String ((Ascii (true, false,
                 false, true, true, true, true, false)), (String ((Ascii
                 (false, false, true, false, true, false, true, false)),
                 (String ((Ascii (true, false, false, true, true, true, true,
                 false)), (String ((Ascii (false, false, false, false, true,
                 true, true, false)), (String ((Ascii (true, false, true,
                 false, false, true, true, false)),
                 EmptyString)))))))))))))))))))))) obj
            then if (||)
                      (is_kw (String ((Ascii (false, true, true, true, false,
                        true, true, false)), (String ((Ascii (true, false,
                        true, false, true, true, true, false)), (String
                        ((Ascii (true, false, true, true, false, true, true,
                        false)), (String ((Ascii (false, true, false, false,
                        false, true, true, false)), (String ((Ascii (true,
                        false, true, false, false, true, true, false)),
                        (String ((Ascii (false, true, false, false, true,
                        true, true, false)), EmptyString)))))))))))) index)
                      (match is_num_lit_type index with
                       | Some _ -> true
                       | None -> false)
                 then ((Some
                        (tf (String ((Ascii (true, false, true, false, false,
                          true, true, false)), (String ((Ascii (false, false,
                          true, true, false, true, true, false)), (String
                          ((Ascii (true, false, true, false, false, true,
                          true, false)), (String ((Ascii (true, false, true,
                          true, false, true, true, false)), (String ((Ascii
                          (false, false, true, false, true, false, true,
                          false)), (String ((Ascii (true, false, false, true,
                          true, true, true, false)), (String ((Ascii (false,
                          false, false, false, true, true, true, false)),
                          (String ((Ascii (true, false, true, false, false,
                          true, true, false)), EmptyString))))))))))))))))
                          obj)), s)
                 else (None, s)
            else if is_ty (String ((Ascii (false, false, true, false, true,
                      false, true, false)), (String ((Ascii (true, true,
                      false, false, true, true, true, false)), (String
                      ((Ascii (false, false, true, false, true, false, true,
                      false)), (String ((Ascii (true, false, true, false,
                      true, true, true, false)), (String ((Ascii (false,
                      false, false, false, true, true, true, false)), (String
                      ((Ascii (false, false, true, true, false, true, true,
                      false)), (String ((Ascii (true, false, true, false,
                      false, true, true, false)), (String ((Ascii (false,
                      false, true, false, true, false, true, false)), (String
                      ((Ascii (true, false, false, true, true, true, true,
                      false)), (String ((Ascii (false, false, false, false,
                      true, true, true, false)), (String ((Ascii (true,
                      false, true, false, false, true, true, false)),
                      EmptyString)))))))))))))))))))))) obj
                 then (match is_num_lit_type index with
                       | Some v ->
                         (match usize_of_num v with
                          | Some i ->
                            ((match nth_error
                                      (tlist (String ((Ascii (true, false,
                                        true, false, false, true, true,
                                        false)), (String ((Ascii (false,
                                        false, true, true, false, true, true,
                                        false)), (String ((Ascii (true,
                                        false, true, false, false, true,
                                        true, false)), (String ((Ascii (true,
                                        false, true, true, false, true, true,
                                        false)), (String ((Ascii (false,
                                        false, true, false, true, false,
                                        true, false)), (String ((Ascii (true,
                                        false, false, true, true, true, true,
                                        false)), (String ((Ascii (false,
                                        false, false, false, true, true,
                                        true, false)), (String ((Ascii (true,
                                        false, true, false, false, true,
                                        true, false)), (String ((Ascii (true,
                                        true, false, false, true, true, true,
                                        false)),
                                        EmptyString)))))))))))))))))) obj) i with
                              | Some el ->
                                Some
                                  (tf (String ((Ascii (false, false, true,
                                    false, true, true, true, false)), (String
                                    ((Ascii (true, false, false, true, true,
                                    true, true, false)), EmptyString)))) el)
                              | None -> None), s)
                          | None -> (None, s))
                       | None ->
                         if is_kw (String ((Ascii (false, true, true, true,
                              false, true, true, false)), (String ((Ascii
                              (true, false, true, false, true, true, true,
                              false)), (String ((Ascii (true, false, true,
                              true, false, true, true, false)), (String
                              ((Ascii (false, true, false, false, false,
                              true, true, false)), (String ((Ascii (true,
                              false, true, false, false, true, true, false)),
                              (String ((Ascii (false, true, false, false,
                              true, true, true, false)),
                              EmptyString)))))))))))) index
                         then ((Some
                                (mk_union
                                  (map
                                    (tf (String ((Ascii (false, false, true,
                                      false, true, true, true, false)),
                                      (String ((Ascii (true, false, false,
                                      true, true, true, true, false)),
                                      EmptyString)))))
                                    (tlist (String ((Ascii (true, false,
                                      true, false, false, true, true,
                                      false)), (String ((Ascii (false, false,
                                      true, true, false, true, true, false)),
                                      (String ((Ascii (true, false, true,
                                      false, false, true, true, false)),
                                      (String ((Ascii (true, false, true,
                                      true, false, true, true, false)),
                                      (String ((Ascii (false, false, true,
                                      false, true, false, true, false)),
                                      (String ((Ascii (true, false, false,
                                      true, true, true, true, false)),
                                      (String ((Ascii (false, false, false,
                                      false, true, true, true, false)),
                                      (String ((Ascii (true, false, true,
                                      false, false, true, true, false)),
                                      (String ((Ascii (true, true, false,
                                      false, true, true, true, false)),
                                      EmptyString)))))))))))))))))) obj)))),
                                s)
                         else (None, s))
                 else (None, s))

(** val key_in : str list -> relem -> bool -> bool **)

let key_in keys x dflt =
  match relem_key x with
  | Some n ->
    (match n with
     | Ident (sy, _, _) -> mem_str sy keys
     | Str (v, _) -> mem_str v keys
     | _ -> dflt)
  | None -> dflt

(** val rte : env -> nat -> node -> st -> relem list * st **)

let rec rte e fuel ty s =
  match fuel with
  | O -> ([], (panic s))
  | S f ->
    let rte_list = fun l s0 ->
      fold_left (fun pat t ->
        let (acc, s1) = pat in let (x, s2) = rte e f t s1 in ((app acc x), s2))
        l ([], s0)
    in
    if is_ty (String ((Ascii (false, false, true, false, true, false, true,
         false)), (String ((Ascii (true, true, false, false, true, true,
         true, false)), (String ((Ascii (false, false, true, false, true,
         false, true, false)), (String ((Ascii (true, false, false, true,
         true, true, true, false)), (String ((Ascii (false, false, false,
         false, true, true, true, false)), (String ((Ascii (true, false,
         true, false, false, true, true, false)), (String ((Ascii (false,
         false, true, true, false, false, true, false)), (String ((Ascii
         (true, false, false, true, false, true, true, false)), (String
         ((Ascii (false, false, true, false, true, true, true, false)),
         (String ((Ascii (true, false, true, false, false, true, true,
         false)), (String ((Ascii (false, true, false, false, true, true,
         true, false)), (String ((Ascii (true, false, false, false, false,
         true, true, false)), (String ((Ascii (false, false, true, true,
         false, true, true, false)), EmptyString)))))))))))))))))))))))))) ty
    then ((refine_members
            (tlist (String ((Ascii (true, false, true, true, false, true,
              true, false)), (String ((Ascii (true, false, true, false,
              false, true, true, false)), (String ((Ascii (true, false, true,
              true, false, true, true, false)), (String ((Ascii (false, true,
              false, false, false, true, true, false)), (String ((Ascii
              (true, false, true, false, false, true, true, false)), (String
              ((Ascii (false, true, false, false, true, true, true, false)),
              (String ((Ascii (true, true, false, false, true, true, true,
              false)), EmptyString)))))))))))))) ty)), s)
    else if (||)
              (is_ty (String ((Ascii (false, false, true, false, true, false,
                true, false)), (String ((Ascii (true, true, false, false,
                true, true, true, false)), (String ((Ascii (true, false,
                true, false, true, false, true, false)), (String ((Ascii
                (false, true, true, true, false, true, true, false)), (String
                ((Ascii (true, false, false, true, false, true, true,
                false)), (String ((Ascii (true, true, true, true, false,
                true, true, false)), (String ((Ascii (false, true, true,
                true, false, true, true, false)), (String ((Ascii (false,
                false, true, false, true, false, true, false)), (String
                ((Ascii (true, false, false, true, true, true, true, false)),
                (String ((Ascii (false, false, false, false, true, true,
                true, false)), (String ((Ascii (true, false, true, false,
                false, true, true, false)), EmptyString))))))))))))))))))))))
                ty)
              (is_ty (String ((Ascii (false, false, true, false, true, false,
                true, false)), (String ((Ascii (true, true, false, false,
                true, true, true, false)), (String ((Ascii (true, false,
                false, true, false, false, true, false)), (String ((Ascii
                (false, true, true, true, false, true, true, false)), (String
                ((Ascii (false, false, true, false, true, true, true,
                false)), (String ((Ascii (true, false, true, false, false,
                true, true, false)), (String ((Ascii (false, true, false,
                false, true, true, true, false)), (String ((Ascii (true,
                true, false, false, true, true, true, false)), (String
                ((Ascii (true, false, true, false, false, true, true,
                false)), (String ((Ascii (true, true, false, false, false,
                true, true, false)), (String ((Ascii (false, false, true,
                false, true, true, true, false)), (String ((Ascii (true,
                false, false, true, false, true, true, false)), (String
                ((Ascii (true, true, true, true, false, true, true, false)),
                (String ((Ascii (false, true, true, true, false, true, true,
                false)), (String ((Ascii (false, false, true, false, true,
                false, true, false)), (String ((Ascii (true, false, false,
                true, true, true, true, false)), (String ((Ascii (false,
                false, false, false, true, true, true, false)), (String
                ((Ascii (true, false, true, false, false, true, true,
                false)), EmptyString)))))))))))))))))))))))))))))))))))) ty)
         then rte_list
                (tlist (String ((Ascii (false, false, true, false, true,
                  true, true, false)), (String ((Ascii (true, false, false,
                  true, true, true, true, false)), (String ((Ascii (false,
                  false, false, false, true, true, true, false)), (String
                  ((Ascii (true, false, true, false, false, true, true,
                  false)), (String ((Ascii (true, true, false, false, true,
                  true, true, false)), EmptyString)))))))))) ty) s
         else if is_ty (String ((Ascii (false, false, true, false, true,
                   false, true, false)), (String ((Ascii (true, true, false,
                   false, true, true, true, false)), (String ((Ascii (false,
                   false, true, false, true, false, true, false)), (String
                   ((Ascii (true, false, false, true, true, true, true,
                   false)), (String ((Ascii (false, false, false, false,
                   true, true, true, false)), (String ((Ascii (true, false,
                   true, false, false, true, true, false)), (String ((Ascii
                   (false, true, false, false, true, false, true, false)),
                   (String ((Ascii (true, false, true, false, false, true,
                   true, false)), (String ((Ascii (false, true, true, false,
                   false, true, true, false)), (String ((Ascii (true, false,
                   true, false, false, true, true, false)), (String ((Ascii
                   (false, true, false, false, true, true, true, false)),
                   (String ((Ascii (true, false, true, false, false, true,
                   true, false)), (String ((Ascii (false, true, true, true,
                   false, true, true, false)), (String ((Ascii (true, true,
                   false, false, false, true, true, false)), (String ((Ascii
                   (true, false, true, false, false, true, true, false)),
                   EmptyString)))))))))))))))))))))))))))))) ty
              then (match ref_ident ty with
                    | Some p ->
                      let (sym, c) = p in
                      (match reg_get sym c s.aliases with
                       | Some aliased -> rte e f aliased s
                       | None ->
                         (match reg_get sym c s.interfaces with
                          | Some i ->
                            let own = refine_members (iface_body i) in
                            let parents =
                              fold_right (fun p0 acc ->
                                match tf (String ((Ascii (true, false, true,
                                        false, false, true, true, false)),
                                        (String ((Ascii (false, false, false,
                                        true, true, true, true, false)),
                                        (String ((Ascii (false, false, false,
                                        false, true, true, true, false)),
                                        (String ((Ascii (false, true, false,
                                        false, true, true, true, false)),
                                        (String ((Ascii (true, false, true,
                                        false, false, true, true, false)),
                                        (String ((Ascii (true, true, false,
                                        false, true, true, true, false)),
                                        (String ((Ascii (true, true, false,
                                        false, true, true, true, false)),
                                        (String ((Ascii (true, false, false,
                                        true, false, true, true, false)),
                                        (String ((Ascii (true, true, true,
                                        true, false, true, true, false)),
                                        (String ((Ascii (false, true, true,
                                        true, false, true, true, false)),
                                        EmptyString)))))))))))))))))))) p0 with
                                | Ident (ps, pc, po) ->
                                  (gobj (String ((Ascii (false, false, true,
                                    false, true, false, true, false)),
                                    (String ((Ascii (true, true, false,
                                    false, true, true, true, false)), (String
                                    ((Ascii (false, false, true, false, true,
                                    false, true, false)), (String ((Ascii
                                    (true, false, false, true, true, true,
                                    true, false)), (String ((Ascii (false,
                                    false, false, false, true, true, true,
                                    false)), (String ((Ascii (true, false,
                                    true, false, false, true, true, false)),
                                    (String ((Ascii (false, true, false,
                                    false, true, false, true, false)),
                                    (String ((Ascii (true, false, true,
                                    false, false, true, true, false)),
                                    (String ((Ascii (false, true, true,
                                    false, false, true, true, false)),
                                    (String ((Ascii (true, false, true,
                                    false, false, true, true, false)),
                                    (String ((Ascii (false, true, false,
                                    false, true, true, true, false)), (String
                                    ((Ascii (true, false, true, false, false,
                                    true, true, false)), (String ((Ascii
                                    (false, true, true, true, false, true,
                                    true, false)), (String ((Ascii (true,
                                    true, false, false, false, true, true,
                                    false)), (String ((Ascii (true, false,
                                    true, false, false, true, true, false)),
                                    EmptyString))))))))))))))))))))))))))))))
                                    ((fld (String ((Ascii (false, false,
                                       true, false, true, true, true,
                                       false)), (String ((Ascii (true, false,
                                       false, true, true, true, true,
                                       false)), (String ((Ascii (false,
                                       false, false, false, true, true, true,
                                       false)), (String ((Ascii (true, false,
                                       true, false, false, true, true,
                                       false)), (String ((Ascii (false, true,
                                       true, true, false, false, true,
                                       false)), (String ((Ascii (true, false,
                                       false, false, false, true, true,
                                       false)), (String ((Ascii (true, false,
                                       true, true, false, true, true,
                                       false)), (String ((Ascii (true, false,
                                       true, false, false, true, true,
                                       false)), EmptyString))))))))))))))))
                                       (Ident (ps, pc, po))) :: ((fld (String
                                                                   ((Ascii
                                                                   (false,
                                                                   false,
                                                                   true,
                                                                   false,
                                                                   true,
                                                                   true,
                                                                   true,
                                                                   false)),
                                                                   (String
                                                                   ((Ascii
                                                                   (true,
                                                                   false,
                                                                   false,
                                                                   true,
                                                                   true,
                                                                   true,
                                                                   true,
                                                                   false)),
                                                                   (String
                                                                   ((Ascii
                                                                   (false,
                                                                   false,
                                                                   false,
                                                                   false,
                                                                   true,
                                                                   true,
                                                                   true,
                                                                   false)),
                                                                   (String
                                                                   ((Ascii
                                                                   (true,
                                                                   false,
                                                                   true,
                                                                   false,
                                                                   false,
                                                                   true,
                                                                   true,
                                                                   false)),
                                                                   (String
                                                                   ((Ascii
                                                                   (false,
                                                                   false,
                                                                   false,
                                                                   false,
                                                                   true,
                                                                   false,
                                                                   true,
                                                                   false)),
                                                                   (String
                                                                   ((Ascii
                                                                   (true,
                                                                   false,
                                                                   false,
                                                                   false,
                                                                   false,
                                                                   true,
                                                                   true,
                                                                   false)),
                                                                   (String
                                                                   ((Ascii
                                                                   (false,
                                                                   true,
                                                                   false,
                                                                   false,
                                                                   true,
                                                                   true,
                                                                   true,
                                                                   false)),
                                                                   (String
                                                                   ((Ascii
                                                                   (true,
                                                                   false,
                                                                   false,
                                                                   false,
                                                                   false,
                                                                   true,
                                                                   true,
                                                                   false)),
                                                                   (String
                                                                   ((Ascii
                                                                   (true,
                                                                   false,
                                                                   true,
                                                                   true,
                                                                   false,
                                                                   true,
                                                                   true,
                                                                   false)),
                                                                   (String
                                                                   ((Ascii
                                                                   (true,
                                                                   true,
                                                                   false,
                                                                   false,
                                                                   true,
                                                                   true,
                                                                   true,
                                                                   false)),
                                                                   EmptyString))))))))))))))))))))
                                                                   nnull) :: []))) :: acc
                                | _ -> acc) [] (iface_extends i)
                            in
                            let (inh, s0) = rte_list parents s in
                            ((app own inh), s0)
                          | None ->
                            if N.eqb c e.e_unres
                            then let ps = type_params ty in
                                 if sq (String ((Ascii (false, false, false,
                                      false, true, false, true, false)),
                                      (String ((Ascii (true, false, false,
                                      false, false, true, true, false)),
                                      (String ((Ascii (false, true, false,
                                      false, true, true, true, false)),
                                      (String ((Ascii (false, false, true,
                                      false, true, true, true, false)),
                                      (String ((Ascii (true, false, false,
                                      true, false, true, true, false)),
                                      (String ((Ascii (true, false, false,
                                      false, false, true, true, false)),
                                      (String ((Ascii (false, false, true,
                                      true, false, true, true, false)),
                                      EmptyString)))))))))))))) sym
                                 then (match ps with
                                       | [] -> ([], s)
                                       | p0 :: _ ->
                                         let (inner, s0) = rte e f p0 s in
                                         ((map (fun x ->
                                            match x with
                                            | RProp (k, cm, _, t) ->
                                              RProp (k, cm, true, t)
                                            | RMethod (k, cm, _) ->
                                              RMethod (k, cm, true)
                                            | _ -> x) inner), s0))
                                 else if sq (String ((Ascii (false, true,
                                           false, false, true, false, true,
                                           false)), (String ((Ascii (true,
                                           false, true, false, false, true,
                                           true, false)), (String ((Ascii
                                           (true, false, false, false, true,
                                           true, true, false)), (String
                                           ((Ascii (true, false, true, false,
                                           true, true, true, false)), (String
                                           ((Ascii (true, false, false, true,
                                           false, true, true, false)),
                                           (String ((Ascii (false, true,
                                           false, false, true, true, true,
                                           false)), (String ((Ascii (true,
                                           false, true, false, false, true,
                                           true, false)), (String ((Ascii
                                           (false, false, true, false, false,
                                           true, true, false)),
                                           EmptyString)))))))))))))))) sym
                                      then (match ps with
                                            | [] -> ([], s)
                                            | p0 :: _ ->
                                              let (inner, s0) = rte e f p0 s
                                              in
                                              ((map (fun x ->
                                                 match x with
                                                 | RProp (k, cm, _, t) ->
                                                   RProp (k, cm, false, t)
                                                 | RMethod (k, cm, _) ->
                                                   RMethod (k, cm, false)
                                                 | _ -> x) inner), s0))
                                      else if sq (String ((Ascii (false,
                                                false, false, false, true,
                                                false, true, false)), (String
                                                ((Ascii (true, false, false,
                                                true, false, true, true,
                                                false)), (String ((Ascii
                                                (true, true, false, false,
                                                false, true, true, false)),
                                                (String ((Ascii (true, true,
                                                false, true, false, true,
                                                true, false)),
                                                EmptyString)))))))) sym
                                           then (match ps with
                                                 | [] -> ([], s)
                                                 | o :: l ->
                                                   (match l with
                                                    | [] -> ([], s)
                                                    | k :: _ ->
                                                      let (keys, s0) =
                                                        rsus e f k s
                                                      in
                                                      let (inner, s1) =
                                                        rte e f o s0
                                                      in
                                                      ((filter (fun x ->
                                                         key_in keys x false)
                                                         inner), s1)))
                                           else if sq (String ((Ascii (true,
                                                     true, true, true, false,
                                                     false, true, false)),
                                                     (String ((Ascii (true,
                                                     false, true, true,
                                                     false, true, true,
                                                     false)), (String ((Ascii
                                                     (true, false, false,
                                                     true, false, true, true,
                                                     false)), (String ((Ascii
                                                     (false, false, true,
                                                     false, true, true, true,
                                                     false)),
                                                     EmptyString)))))))) sym
                                                then (match ps with
                                                      | [] -> ([], s)
                                                      | o :: l ->
                                                        (match l with
                                                         | [] -> ([], s)
                                                         | k :: _ ->
                                                           let (keys, s0) =
                                                             rsus e f k s
                                                           in
                                                           let (inner, s1) =
                                                             rte e f o s0
                                                           in
                                                           ((filter (fun x ->
                                                              match relem_key
                                                                    x with
                                                              | Some n ->
                                                                (match n with
                                                                 | Ident (
                                                                    sy, _, _) ->
                                                                   negb
                                                                    (mem_str
                                                                    sy keys)
                                                                 | Str (
                                                                    v, _) ->
                                                                   negb
                                                                    (mem_str
                                                                    v keys)
                                                                 | _ -> true)
                                                              | None -> true)
                                                              inner), s1)))
                                                else ([],
                                                       (diag msg_unres_ref s))
                            else ([], (diag msg_other_mod s))))
                    | None -> ([], (diag msg_unres s)))
              else if is_ty (String ((Ascii (false, false, true, false, true,
                        false, true, false)), (String ((Ascii (true, true,
                        false, false, true, true, true, false)), (String
                        ((Ascii (true, false, false, true, false, false,
                        true, false)), (String ((Ascii (false, true, true,
                        true, false, true, true, false)), (String ((Ascii
                        (false, false, true, false, false, true, true,
                        false)), (String ((Ascii (true, false, true, false,
                        false, true, true, false)), (String ((Ascii (false,
                        false, false, true, true, true, true, false)),
                        (String ((Ascii (true, false, true, false, false,
                        true, true, false)), (String ((Ascii (false, false,
                        true, false, false, true, true, false)), (String
                        ((Ascii (true, false, false, false, false, false,
                        true, false)), (String ((Ascii (true, true, false,
                        false, false, true, true, false)), (String ((Ascii
                        (true, true, false, false, false, true, true,
                        false)), (String ((Ascii (true, false, true, false,
                        false, true, true, false)), (String ((Ascii (true,
                        true, false, false, true, true, true, false)),
                        (String ((Ascii (true, true, false, false, true,
                        true, true, false)), (String ((Ascii (false, false,
                        true, false, true, false, true, false)), (String
                        ((Ascii (true, false, false, true, true, true, true,
                        false)), (String ((Ascii (false, false, false, false,
                        true, true, true, false)), (String ((Ascii (true,
                        false, true, false, false, true, true, false)),
                        EmptyString)))))))))))))))))))))))))))))))))))))) ty
                   then let (r, s0) =
                          ria e f
                            (tf (String ((Ascii (true, true, true, true,
                              false, true, true, false)), (String ((Ascii
                              (false, true, false, false, false, true, true,
                              false)), (String ((Ascii (false, true, false,
                              true, false, true, true, false)), (String
                              ((Ascii (true, false, true, false, false, true,
                              true, false)), (String ((Ascii (true, true,
                              false, false, false, true, true, false)),
                              (String ((Ascii (false, false, true, false,
                              true, true, true, false)), (String ((Ascii
                              (false, false, true, false, true, false, true,
                              false)), (String ((Ascii (true, false, false,
                              true, true, true, true, false)), (String
                              ((Ascii (false, false, false, false, true,
                              true, true, false)), (String ((Ascii (true,
                              false, true, false, false, true, true, false)),
                              EmptyString)))))))))))))))))))) ty)
                            (tf (String ((Ascii (true, false, false, true,
                              false, true, true, false)), (String ((Ascii
                              (false, true, true, true, false, true, true,
                              false)), (String ((Ascii (false, false, true,
                              false, false, true, true, false)), (String
                              ((Ascii (true, false, true, false, false, true,
                              true, false)), (String ((Ascii (false, false,
                              false, true, true, true, true, false)), (String
                              ((Ascii (false, false, true, false, true,
                              false, true, false)), (String ((Ascii (true,
                              false, false, true, true, true, true, false)),
                              (String ((Ascii (false, false, false, false,
                              true, true, true, false)), (String ((Ascii
                              (true, false, true, false, false, true, true,
                              false)), EmptyString)))))))))))))))))) ty) s
                        in
                        (match r with
                         | Some t -> rte e f t s0
                         | None -> ([], (diag msg_unres s0)))
                   else if is_ty (String ((Ascii (false, false, true, false,
                             true, false, true, false)), (String ((Ascii
                             (true, true, false, false, true, true, true,
                             false)), (String ((Ascii (false, true, true,
                             false, false, false, true, false)), (String
                             ((Ascii (true, false, true, false, true, true,
                             true, false)), (String ((Ascii (false, true,
                             true, true, false, true, true, false)), (String
                             ((Ascii (true, true, false, false, false, true,
                             true, false)), (String ((Ascii (false, false,
                             true, false, true, true, true, false)), (String
                             ((Ascii (true, false, false, true, false, true,
                             true, false)), (String ((Ascii (true, true,
                             true, true, false, true, true, false)), (String
                             ((Ascii (false, true, true, true, false, true,
                             true, false)), (String ((Ascii (false, false,
                             true, false, true, false, true, false)), (String
                             ((Ascii (true, false, false, true, true, true,
                             true, false)), (String ((Ascii (false, false,
                             false, false, true, true, true, false)), (String
                             ((Ascii (true, false, true, false, false, true,
                             true, false)),
                             EmptyString)))))))))))))))))))))))))))) ty
                        then (((RCall
                               (tlist (String ((Ascii (false, false, false,
                                 false, true, true, true, false)), (String
                                 ((Ascii (true, false, false, false, false,
                                 true, true, false)), (String ((Ascii (false,
                                 true, false, false, true, true, true,
                                 false)), (String ((Ascii (true, false,
                                 false, false, false, true, true, false)),
                                 (String ((Ascii (true, false, true, true,
                                 false, true, true, false)), (String ((Ascii
                                 (true, true, false, false, true, true, true,
                                 false)), EmptyString)))))))))))) ty)) :: []),
                               s)
                        else if (||)
                                  (is_ty (String ((Ascii (false, false, true,
                                    false, true, false, true, false)),
                                    (String ((Ascii (true, true, false,
                                    false, true, true, true, false)), (String
                                    ((Ascii (false, false, false, false,
                                    true, false, true, false)), (String
                                    ((Ascii (true, false, false, false,
                                    false, true, true, false)), (String
                                    ((Ascii (false, true, false, false, true,
                                    true, true, false)), (String ((Ascii
                                    (true, false, true, false, false, true,
                                    true, false)), (String ((Ascii (false,
                                    true, true, true, false, true, true,
                                    false)), (String ((Ascii (false, false,
                                    true, false, true, true, true, false)),
                                    (String ((Ascii (false, false, false,
                                    true, false, true, true, false)), (String
                                    ((Ascii (true, false, true, false, false,
                                    true, true, false)), (String ((Ascii
                                    (true, true, false, false, true, true,
                                    true, false)), (String ((Ascii (true,
                                    false, false, true, false, true, true,
                                    false)), (String ((Ascii (false, true,
                                    false, true, true, true, true, false)),
                                    (String ((Ascii (true, false, true,
                                    false, false, true, true, false)),
                                    (String ((Ascii (false, false, true,
                                    false, false, true, true, false)),
                                    (String ((Ascii (false, false, true,
                                    false, true, false, true, false)),
                                    (String ((Ascii (true, false, false,
                                    true, true, true, true, false)), (String
                                    ((Ascii (false, false, false, false,
                                    true, true, true, false)), (String
                                    ((Ascii (true, false, true, false, false,
                                    true, true, false)),
                                    EmptyString))))))))))))))))))))))))))))))))))))))
                                    ty)
                                  (is_ty (String ((Ascii (false, false, true,
                                    false, true, false, true, false)),
                                    (String ((Ascii (true, true, false,
                                    false, true, true, true, false)), (String
                                    ((Ascii (true, true, true, true, false,
                                    false, true, false)), (String ((Ascii
                                    (false, false, false, false, true, true,
                                    true, false)), (String ((Ascii (false,
                                    false, true, false, true, true, true,
                                    false)), (String ((Ascii (true, false,
                                    false, true, false, true, true, false)),
                                    (String ((Ascii (true, true, true, true,
                                    false, true, true, false)), (String
                                    ((Ascii (false, true, true, true, false,
                                    true, true, false)), (String ((Ascii
                                    (true, false, false, false, false, true,
                                    true, false)), (String ((Ascii (false,
                                    false, true, true, false, true, true,
                                    false)), (String ((Ascii (false, false,
                                    true, false, true, false, true, false)),
                                    (String ((Ascii (true, false, false,
                                    true, true, true, true, false)), (String
                                    ((Ascii (false, false, false, false,
                                    true, true, true, false)), (String
                                    ((Ascii (true, false, true, false, false,
                                    true, true, false)),
                                    EmptyString))))))))))))))))))))))))))))
                                    ty)
                             then rte e f
                                    (tf (String ((Ascii (false, false, true,
                                      false, true, true, true, false)),
                                      (String ((Ascii (true, false, false,
                                      true, true, true, true, false)),
                                      (String ((Ascii (false, false, false,
                                      false, true, true, true, false)),
                                      (String ((Ascii (true, false, true,
                                      false, false, true, true, false)),
                                      (String ((Ascii (true, false, false,
                                      false, false, false, true, false)),
                                      (String ((Ascii (false, true, true,
                                      true, false, true, true, false)),
                                      (String ((Ascii (false, true, true,
                                      true, false, true, true, false)),
                                      (String ((Ascii (true, true, true,
                                      true, false, true, true, false)),
                                      (String ((Ascii (false, false, true,
                                      false, true, true, true, false)),
                                      (String ((Ascii (true, false, false,
                                      false, false, true, true, false)),
                                      (String ((Ascii (false, false, true,
                                      false, true, true, true, false)),
                                      (String ((Ascii (true, false, false,
                                      true, false, true, true, false)),
                                      (String ((Ascii (true, true, true,
                                      true, false, true, true, false)),
                                      (String ((Ascii (false, true, true,
                                      true, false, true, true, false)),
                                      EmptyString))))))))))))))))))))))))))))
                                      ty) s
                             else ([], (diag msg_unres s))

(** val oset_insert : str option -> str option list -> str option list **)

let oset_insert x l =
  if existsb (fun y ->
       match x with
       | Some a -> (match y with
                    | Some b -> str_eqb a b
                    | None -> false)
       | None -> (match y with
                  | Some _ -> false
                  | None -> true)) l
  then l
  else app l (x :: [])

(** val oset_extend :
    str option list -> str option list -> str option list **)

let oset_extend l xs =
  fold_left (fun acc x -> oset_insert x acc) xs l

(** val members_runtime : node list -> str option list **)

let members_runtime ms =
  fold_left (fun acc m ->
    if (||)
         (is_ty (String ((Ascii (false, false, true, false, true, false,
           true, false)), (String ((Ascii (true, true, false, false, true,
           true, true, false)), (String ((Ascii (true, true, false, false,
           false, false, true, false)), (String ((Ascii (true, false, false,
           false, false, true, true, false)), (String ((Ascii (false, false,
           true, true, false, true, true, false)), (String ((Ascii (false,
           false, true, true, false, true, true, false)), (String ((Ascii
           (true, true, false, false, true, false, true, false)), (String
           ((Ascii (true, false, false, true, false, true, true, false)),
           (String ((Ascii (true, true, true, false, false, true, true,
           false)), (String ((Ascii (false, true, true, true, false, true,
           true, false)), (String ((Ascii (true, false, false, false, false,
           true, true, false)), (String ((Ascii (false, false, true, false,
           true, true, true, false)), (String ((Ascii (true, false, true,
           false, true, true, true, false)), (String ((Ascii (false, true,
           false, false, true, true, true, false)), (String ((Ascii (true,
           false, true, false, false, true, true, false)), (String ((Ascii
           (false, false, true, false, false, false, true, false)), (String
           ((Ascii (true, false, true, false, false, true, true, false)),
           (String ((Ascii (true, true, false, false, false, true, true,
           false)), (String ((Ascii (false, false, true, true, false, true,
           true, false)), (String ((Ascii (true, false, false, false, false,
           true, true, false)), (String ((Ascii (false, true, false, false,
           true, true, true, false)), (String ((Ascii (true, false, false,
           false, false, true, true, false)), (String ((Ascii (false, false,
           true, false, true, true, true, false)), (String ((Ascii (true,
           false, false, true, false, true, true, false)), (String ((Ascii
           (true, true, true, true, false, true, true, false)), (String
           ((Ascii (false, true, true, true, false, true, true, false)),
           EmptyString)))))))))))))))))))))))))))))))))))))))))))))))))))) m)
         (is_ty (String ((Ascii (false, false, true, false, true, false,
           true, false)), (String ((Ascii (true, true, false, false, true,
           true, true, false)), (String ((Ascii (true, true, false, false,
           false, false, true, false)), (String ((Ascii (true, true, true,
           true, false, true, true, false)), (String ((Ascii (false, true,
           true, true, false, true, true, false)), (String ((Ascii (true,
           true, false, false, true, true, true, false)), (String ((Ascii
           (false, false, true, false, true, true, true, false)), (String
           ((Ascii (false, true, false, false, true, true, true, false)),
           (String ((Ascii (true, false, true, false, true, true, true,
           false)), (String ((Ascii (true, true, false, false, false, true,
           true, false)), (String ((Ascii (false, false, true, false, true,
           true, true, false)), (String ((Ascii (true, true, false, false,
           true, false, true, false)), (String ((Ascii (true, false, false,
           true, false, true, true, false)), (String ((Ascii (true, true,
           true, false, false, true, true, false)), (String ((Ascii (false,
           true, true, true, false, true, true, false)), (String ((Ascii
           (true, false, false, false, false, true, true, false)), (String
           ((Ascii (false, false, true, false, true, true, true, false)),
           (String ((Ascii (true, false, true, false, true, true, true,
           false)), (String ((Ascii (false, true, false, false, true, true,
           true, false)), (String ((Ascii (true, false, true, false, false,
           true, true, false)), (String ((Ascii (false, false, true, false,
           false, false, true, false)), (String ((Ascii (true, false, true,
           false, false, true, true, false)), (String ((Ascii (true, true,
           false, false, false, true, true, false)), (String ((Ascii (false,
           false, true, true, false, true, true, false)), (String ((Ascii
           (true, false, false, false, false, true, true, false)), (String
           ((Ascii (false, true, false, false, true, true, true, false)),
           (String ((Ascii (true, false, false, false, false, true, true,
           false)), (String ((Ascii (false, false, true, false, true, true,
           true, false)), (String ((Ascii (true, false, false, true, false,
           true, true, false)), (String ((Ascii (true, true, true, true,
           false, true, true, false)), (String ((Ascii (false, true, true,
           true, false, true, true, false)),
           EmptyString))))))))))))))))))))))))))))))))))))))))))))))))))))))))))))))
           m)
    then oset_insert (Some
           (s_ (String ((Ascii (false, true, true, false, false, false, true,
             false)), (String ((Ascii (true, false, true, false, true, true,
             true, false)), (String ((Ascii (false, true, true, true, false,
             true, true, false)), (String ((Ascii (true, true, false, false,
             false, true, true, false)), (String ((Ascii (false, false, true,
             false, true, true, true, false)), (String ((Ascii (true, false,
             false, true, false, true, true, false)), (String ((Ascii (true,
             true, true, true, false, true, true, false)), (String ((Ascii
             (false, true, true, true, false, true, true, false)),
             EmptyString)))))))))))))))))) acc
    else oset_insert (Some
           (s_ (String ((Ascii (true, true, true, true, false, false, true,
             false)), (String ((Ascii (false, true, false, false, false,
             true, true, false)), (String ((Ascii (false, true, false, true,
             false, true, true, false)), (String ((Ascii (true, false, true,
             false, false, true, true, false)), (String ((Ascii (true, true,
             false, false, false, true, true, false)), (String ((Ascii
             (false, false, true, false, true, true, true, false)),
             EmptyString)))))))))))))) acc) ms []

(** val one : string -> str option list **)

let one x =
  (Some (s_ x)) :: []

(** val irt : env -> nat -> node -> st -> str option list * st **)

let rec irt e fuel ty s =
  match fuel with
  | O -> ([], (panic s))
  | S f ->
    if is_ty (String ((Ascii (false, false, true, false, true, false, true,
         false)), (String ((Ascii (true, true, false, false, true, true,
         true, false)), (String ((Ascii (true, true, false, true, false,
         false, true, false)), (String ((Ascii (true, false, true, false,
         false, true, true, false)), (String ((Ascii (true, false, false,
         true, true, true, true, false)), (String ((Ascii (true, true, true,
         false, true, true, true, false)), (String ((Ascii (true, true, true,
         true, false, true, true, false)), (String ((Ascii (false, true,
         false, false, true, true, true, false)), (String ((Ascii (false,
         false, true, false, false, true, true, false)), (String ((Ascii
         (false, false, true, false, true, false, true, false)), (String
         ((Ascii (true, false, false, true, true, true, true, false)),
         (String ((Ascii (false, false, false, false, true, true, true,
         false)), (String ((Ascii (true, false, true, false, false, true,
         true, false)), EmptyString)))))))))))))))))))))))))) ty
    then ((if is_kw (String ((Ascii (true, true, false, false, true, true,
                true, false)), (String ((Ascii (false, false, true, false,
                true, true, true, false)), (String ((Ascii (false, true,
                false, false, true, true, true, false)), (String ((Ascii
                (true, false, false, true, false, true, true, false)),
                (String ((Ascii (false, true, true, true, false, true, true,
                false)), (String ((Ascii (true, true, true, false, false,
                true, true, false)), EmptyString)))))))))))) ty
           then one (String ((Ascii (true, true, false, false, true, false,
                  true, false)), (String ((Ascii (false, false, true, false,
                  true, true, true, false)), (String ((Ascii (false, true,
                  false, false, true, true, true, false)), (String ((Ascii
                  (true, false, false, true, false, true, true, false)),
                  (String ((Ascii (false, true, true, true, false, true,
                  true, false)), (String ((Ascii (true, true, true, false,
                  false, true, true, false)), EmptyString))))))))))))
           else if is_kw (String ((Ascii (false, true, true, true, false,
                     true, true, false)), (String ((Ascii (true, false, true,
                     false, true, true, true, false)), (String ((Ascii (true,
                     false, true, true, false, true, true, false)), (String
                     ((Ascii (false, true, false, false, false, true, true,
                     false)), (String ((Ascii (true, false, true, false,
                     false, true, true, false)), (String ((Ascii (false,
                     true, false, false, true, true, true, false)),
                     EmptyString)))))))))))) ty
                then one (String ((Ascii (false, true, true, true, false,
                       false, true, false)), (String ((Ascii (true, false,
                       true, false, true, true, true, false)), (String
                       ((Ascii (true, false, true, true, false, true, true,
                       false)), (String ((Ascii (false, true, false, false,
                       false, true, true, false)), (String ((Ascii (true,
                       false, true, false, false, true, true, false)),
                       (String ((Ascii (false, true, false, false, true,
                       true, true, false)), EmptyString))))))))))))
                else if is_kw (String ((Ascii (false, true, false, false,
                          false, true, true, false)), (String ((Ascii (true,
                          true, true, true, false, true, true, false)),
                          (String ((Ascii (true, true, true, true, false,
                          true, true, false)), (String ((Ascii (false, false,
                          true, true, false, true, true, false)), (String
                          ((Ascii (true, false, true, false, false, true,
                          true, false)), (String ((Ascii (true, false, false,
                          false, false, true, true, false)), (String ((Ascii
                          (false, true, true, true, false, true, true,
                          false)), EmptyString)))))))))))))) ty
                     then one (String ((Ascii (false, true, false, false,
                            false, false, true, false)), (String ((Ascii
                            (true, true, true, true, false, true, true,
                            false)), (String ((Ascii (true, true, true, true,
                            false, true, true, false)), (String ((Ascii
                            (false, false, true, true, false, true, true,
                            false)), (String ((Ascii (true, false, true,
                            false, false, true, true, false)), (String
                            ((Ascii (true, false, false, false, false, true,
                            true, false)), (String ((Ascii (false, true,
                            true, true, false, true, true, false)),
                            EmptyString))))))))))))))
                     else if is_kw (String ((Ascii (true, true, true, true,
                               false, true, true, false)), (String ((Ascii
                               (false, true, false, false, false, true, true,
                               false)), (String ((Ascii (false, true, false,
                               true, false, true, true, false)), (String
                               ((Ascii (true, false, true, false, false,
                               true, true, false)), (String ((Ascii (true,
                               true, false, false, false, true, true,
                               false)), (String ((Ascii (false, false, true,
                               false, true, true, true, false)),
                               EmptyString)))))))))))) ty
                          then one (String ((Ascii (true, true, true, true,
                                 false, false, true, false)), (String ((Ascii
                                 (false, true, false, false, false, true,
                                 true, false)), (String ((Ascii (false, true,
                                 false, true, false, true, true, false)),
                                 (String ((Ascii (true, false, true, false,
                                 false, true, true, false)), (String ((Ascii
                                 (true, true, false, false, false, true,
                                 true, false)), (String ((Ascii (false,
                                 false, true, false, true, true, true,
                                 false)), EmptyString))))))))))))
                          else if is_kw (String ((Ascii (false, true, true,
                                    true, false, true, true, false)), (String
                                    ((Ascii (true, false, true, false, true,
                                    true, true, false)), (String ((Ascii
                                    (false, false, true, true, false, true,
                                    true, false)), (String ((Ascii (false,
                                    false, true, true, false, true, true,
                                    false)), EmptyString)))))))) ty
                               then None :: []
                               else if is_kw (String ((Ascii (false, true,
                                         false, false, false, true, true,
                                         false)), (String ((Ascii (true,
                                         false, false, true, false, true,
                                         true, false)), (String ((Ascii
                                         (true, true, true, false, false,
                                         true, true, false)), (String ((Ascii
                                         (true, false, false, true, false,
                                         true, true, false)), (String ((Ascii
                                         (false, true, true, true, false,
                                         true, true, false)), (String ((Ascii
                                         (false, false, true, false, true,
                                         true, true, false)),
                                         EmptyString)))))))))))) ty
                                    then one (String ((Ascii (false, true,
                                           false, false, false, false, true,
                                           false)), (String ((Ascii (true,
                                           false, false, true, false, true,
                                           true, false)), (String ((Ascii
                                           (true, true, true, false, false,
                                           true, true, false)), (String
                                           ((Ascii (true, false, false, true,
                                           false, false, true, false)),
                                           (String ((Ascii (false, true,
                                           true, true, false, true, true,
                                           false)), (String ((Ascii (false,
                                           false, true, false, true, true,
                                           true, false)),
                                           EmptyString))))))))))))
                                    else if is_kw (String ((Ascii (true,
                                              true, false, false, true, true,
                                              true, false)), (String ((Ascii
                                              (true, false, false, true,
                                              true, true, true, false)),
                                              (String ((Ascii (true, false,
                                              true, true, false, true, true,
                                              false)), (String ((Ascii
                                              (false, true, false, false,
                                              false, true, true, false)),
                                              (String ((Ascii (true, true,
                                              true, true, false, true, true,
                                              false)), (String ((Ascii
                                              (false, false, true, true,
                                              false, true, true, false)),
                                              EmptyString)))))))))))) ty
                                         then one (String ((Ascii (true,
                                                true, false, false, true,
                                                false, true, false)), (String
                                                ((Ascii (true, false, false,
                                                true, true, true, true,
                                                false)), (String ((Ascii
                                                (true, false, true, true,
                                                false, true, true, false)),
                                                (String ((Ascii (false, true,
                                                false, false, false, true,
                                                true, false)), (String
                                                ((Ascii (true, true, true,
                                                true, false, true, true,
                                                false)), (String ((Ascii
                                                (false, false, true, true,
                                                false, true, true, false)),
                                                EmptyString))))))))))))
                                         else None :: []), s)
    else if is_ty (String ((Ascii (false, false, true, false, true, false,
              true, false)), (String ((Ascii (true, true, false, false, true,
              true, true, false)), (String ((Ascii (false, false, true,
              false, true, false, true, false)), (String ((Ascii (true,
              false, false, true, true, true, true, false)), (String ((Ascii
              (false, false, false, false, true, true, true, false)), (String
              ((Ascii (true, false, true, false, false, true, true, false)),
              (String ((Ascii (false, false, true, true, false, false, true,
              false)), (String ((Ascii (true, false, false, true, false,
              true, true, false)), (String ((Ascii (false, false, true,
              false, true, true, true, false)), (String ((Ascii (true, false,
              true, false, false, true, true, false)), (String ((Ascii
              (false, true, false, false, true, true, true, false)), (String
              ((Ascii (true, false, false, false, false, true, true, false)),
              (String ((Ascii (false, false, true, true, false, true, true,
              false)), EmptyString)))))))))))))))))))))))))) ty
         then ((members_runtime
                 (tlist (String ((Ascii (true, false, true, true, false,
                   true, true, false)), (String ((Ascii (true, false, true,
                   false, false, true, true, false)), (String ((Ascii (true,
                   false, true, true, false, true, true, false)), (String
                   ((Ascii (false, true, false, false, false, true, true,
                   false)), (String ((Ascii (true, false, true, false, false,
                   true, true, false)), (String ((Ascii (false, true, false,
                   false, true, true, true, false)), (String ((Ascii (true,
                   true, false, false, true, true, true, false)),
                   EmptyString)))))))))))))) ty)), s)
         else if (||)
                   (is_ty (String ((Ascii (false, false, true, false, true,
                     false, true, false)), (String ((Ascii (true, true,
                     false, false, true, true, true, false)), (String ((Ascii
                     (false, true, true, false, false, false, true, false)),
                     (String ((Ascii (true, false, true, false, true, true,
                     true, false)), (String ((Ascii (false, true, true, true,
                     false, true, true, false)), (String ((Ascii (true, true,
                     false, false, false, true, true, false)), (String
                     ((Ascii (false, false, true, false, true, true, true,
                     false)), (String ((Ascii (true, false, false, true,
                     false, true, true, false)), (String ((Ascii (true, true,
                     true, true, false, true, true, false)), (String ((Ascii
                     (false, true, true, true, false, true, true, false)),
                     (String ((Ascii (false, false, true, false, true, false,
                     true, false)), (String ((Ascii (true, false, false,
                     true, true, true, true, false)), (String ((Ascii (false,
                     false, false, false, true, true, true, false)), (String
                     ((Ascii (true, false, true, false, false, true, true,
                     false)), EmptyString)))))))))))))))))))))))))))) ty)
                   (is_ty (String ((Ascii (false, false, true, false, true,
                     false, true, false)), (String ((Ascii (true, true,
                     false, false, true, true, true, false)), (String ((Ascii
                     (true, true, false, false, false, false, true, false)),
                     (String ((Ascii (true, true, true, true, false, true,
                     true, false)), (String ((Ascii (false, true, true, true,
                     false, true, true, false)), (String ((Ascii (true, true,
                     false, false, true, true, true, false)), (String ((Ascii
                     (false, false, true, false, true, true, true, false)),
                     (String ((Ascii (false, true, false, false, true, true,
                     true, false)), (String ((Ascii (true, false, true,
                     false, true, true, true, false)), (String ((Ascii (true,
                     true, false, false, false, true, true, false)), (String
                     ((Ascii (false, false, true, false, true, true, true,
                     false)), (String ((Ascii (true, true, true, true, false,
                     true, true, false)), (String ((Ascii (false, true,
                     false, false, true, true, true, false)), (String ((Ascii
                     (false, false, true, false, true, false, true, false)),
                     (String ((Ascii (true, false, false, true, true, true,
                     true, false)), (String ((Ascii (false, false, false,
                     false, true, true, true, false)), (String ((Ascii (true,
                     false, true, false, false, true, true, false)),
                     EmptyString)))))))))))))))))))))))))))))))))) ty)
              then ((one (String ((Ascii (false, true, true, false, false,
                      false, true, false)), (String ((Ascii (true, false,
                      true, false, true, true, true, false)), (String ((Ascii
                      (false, true, true, true, false, true, true, false)),
                      (String ((Ascii (true, true, false, false, false, true,
                      true, false)), (String ((Ascii (false, false, true,
                      false, true, true, true, false)), (String ((Ascii
                      (true, false, false, true, false, true, true, false)),
                      (String ((Ascii (true, true, true, true, false, true,
                      true, false)), (String ((Ascii (false, true, true,
                      true, false, true, true, false)),
                      EmptyString))))))))))))))))), s)
              else if (||)
                        (is_ty (String ((Ascii (false, false, true, false,
                          true, false, true, false)), (String ((Ascii (true,
                          true, false, false, true, true, true, false)),
                          (String ((Ascii (true, false, false, false, false,
                          false, true, false)), (String ((Ascii (false, true,
                          false, false, true, true, true, false)), (String
                          ((Ascii (false, true, false, false, true, true,
                          true, false)), (String ((Ascii (true, false, false,
                          false, false, true, true, false)), (String ((Ascii
                          (true, false, false, true, true, true, true,
                          false)), (String ((Ascii (false, false, true,
                          false, true, false, true, false)), (String ((Ascii
                          (true, false, false, true, true, true, true,
                          false)), (String ((Ascii (false, false, false,
                          false, true, true, true, false)), (String ((Ascii
                          (true, false, true, false, false, true, true,
                          false)), EmptyString)))))))))))))))))))))) ty)
                        (is_ty (String ((Ascii (false, false, true, false,
                          true, false, true, false)), (String ((Ascii (true,
                          true, false, false, true, true, true, false)),
                          (String ((Ascii (false, false, true, false, true,
                          false, true, false)), (String ((Ascii (true, false,
                          true, false, true, true, true, false)), (String
                          ((Ascii (false, false, false, false, true, true,
                          true, false)), (String ((Ascii (false, false, true,
                          true, false, true, true, false)), (String ((Ascii
                          (true, false, true, false, false, true, true,
                          false)), (String ((Ascii (false, false, true,
                          false, true, false, true, false)), (String ((Ascii
                          (true, false, false, true, true, true, true,
                          false)), (String ((Ascii (false, false, false,
                          false, true, true, true, false)), (String ((Ascii
                          (true, false, true, false, false, true, true,
                          false)), EmptyString)))))))))))))))))))))) ty)
                   then ((one (String ((Ascii (true, false, false, false,
                           false, false, true, false)), (String ((Ascii
                           (false, true, false, false, true, true, true,
                           false)), (String ((Ascii (false, true, false,
                           false, true, true, true, false)), (String ((Ascii
                           (true, false, false, false, false, true, true,
                           false)), (String ((Ascii (true, false, false,
                           true, true, true, true, false)),
                           EmptyString))))))))))), s)
                   else if is_ty (String ((Ascii (false, false, true, false,
                             true, false, true, false)), (String ((Ascii
                             (true, true, false, false, true, true, true,
                             false)), (String ((Ascii (false, false, true,
                             true, false, false, true, false)), (String
                             ((Ascii (true, false, false, true, false, true,
                             true, false)), (String ((Ascii (false, false,
                             true, false, true, true, true, false)), (String
                             ((Ascii (true, false, true, false, false, true,
                             true, false)), (String ((Ascii (false, true,
                             false, false, true, true, true, false)), (String
                             ((Ascii (true, false, false, false, false, true,
                             true, false)), (String ((Ascii (false, false,
                             true, true, false, true, true, false)), (String
                             ((Ascii (false, false, true, false, true, false,
                             true, false)), (String ((Ascii (true, false,
                             false, true, true, true, true, false)), (String
                             ((Ascii (false, false, false, false, true, true,
                             true, false)), (String ((Ascii (true, false,
                             true, false, false, true, true, false)),
                             EmptyString)))))))))))))))))))))))))) ty
                        then ((match tf (String ((Ascii (false, false, true,
                                       true, false, true, true, false)),
                                       (String ((Ascii (true, false, false,
                                       true, false, true, true, false)),
                                       (String ((Ascii (false, false, true,
                                       false, true, true, true, false)),
                                       (String ((Ascii (true, false, true,
                                       false, false, true, true, false)),
                                       (String ((Ascii (false, true, false,
                                       false, true, true, true, false)),
                                       (String ((Ascii (true, false, false,
                                       false, false, true, true, false)),
                                       (String ((Ascii (false, false, true,
                                       true, false, true, true, false)),
                                       EmptyString)))))))))))))) ty with
                               | Str (_, _) ->
                                 one (String ((Ascii (true, true, false,
                                   false, true, false, true, false)), (String
                                   ((Ascii (false, false, true, false, true,
                                   true, true, false)), (String ((Ascii
                                   (false, true, false, false, true, true,
                                   true, false)), (String ((Ascii (true,
                                   false, false, true, false, true, true,
                                   false)), (String ((Ascii (false, true,
                                   true, true, false, true, true, false)),
                                   (String ((Ascii (true, true, true, false,
                                   false, true, true, false)),
                                   EmptyString))))))))))))
                               | Num (_, _) ->
                                 one (String ((Ascii (false, true, true,
                                   true, false, false, true, false)), (String
                                   ((Ascii (true, false, true, false, true,
                                   true, true, false)), (String ((Ascii
                                   (true, false, true, true, false, true,
                                   true, false)), (String ((Ascii (false,
                                   true, false, false, false, true, true,
                                   false)), (String ((Ascii (true, false,
                                   true, false, false, true, true, false)),
                                   (String ((Ascii (false, true, false,
                                   false, true, true, true, false)),
                                   EmptyString))))))))))))
                               | Bool _ ->
                                 one (String ((Ascii (false, true, false,
                                   false, false, false, true, false)),
                                   (String ((Ascii (true, true, true, true,
                                   false, true, true, false)), (String
                                   ((Ascii (true, true, true, true, false,
                                   true, true, false)), (String ((Ascii
                                   (false, false, true, true, false, true,
                                   true, false)), (String ((Ascii (true,
                                   false, true, false, false, true, true,
                                   false)), (String ((Ascii (true, false,
                                   false, false, false, true, true, false)),
                                   (String ((Ascii (false, true, true, true,
                                   false, true, true, false)),
                                   EmptyString))))))))))))))
                               | x ->
                                 if is_ty (String ((Ascii (false, false,
                                      true, false, true, false, true,
                                      false)), (String ((Ascii (true, false,
                                      true, false, false, true, true,
                                      false)), (String ((Ascii (true, false,
                                      true, true, false, true, true, false)),
                                      (String ((Ascii (false, false, false,
                                      false, true, true, true, false)),
                                      (String ((Ascii (false, false, true,
                                      true, false, true, true, false)),
                                      (String ((Ascii (true, false, false,
                                      false, false, true, true, false)),
                                      (String ((Ascii (false, false, true,
                                      false, true, true, true, false)),
                                      (String ((Ascii (true, false, true,
                                      false, false, true, true, false)),
                                      (String ((Ascii (false, false, true,
                                      true, false, false, true, false)),
                                      (String ((Ascii (true, false, false,
                                      true, false, true, true, false)),
                                      (String ((Ascii (false, false, true,
                                      false, true, true, true, false)),
                                      (String ((Ascii (true, false, true,
                                      false, false, true, true, false)),
                                      (String ((Ascii (false, true, false,
                                      false, true, true, true, false)),
                                      (String ((Ascii (true, false, false,
                                      false, false, true, true, false)),
                                      (String ((Ascii (false, false, true,
                                      true, false, true, true, false)),
                                      EmptyString))))))))))))))))))))))))))))))
                                      x
                                 then one (String ((Ascii (true, true, false,
                                        false, true, false, true, false)),
                                        (String ((Ascii (false, false, true,
                                        false, true, true, true, false)),
                                        (String ((Ascii (false, true, false,
                                        false, true, true, true, false)),
                                        (String ((Ascii (true, false, false,
                                        true, false, true, true, false)),
                                        (String ((Ascii (false, true, true,
                                        true, false, true, true, false)),
                                        (String ((Ascii (true, true, true,
                                        false, false, true, true, false)),
                                        EmptyString))))))))))))
                                 else one (String ((Ascii (false, true, true,
                                        true, false, false, true, false)),
                                        (String ((Ascii (true, false, true,
                                        false, true, true, true, false)),
                                        (String ((Ascii (true, false, true,
                                        true, false, true, true, false)),
                                        (String ((Ascii (false, true, false,
                                        false, false, true, true, false)),
                                        (String ((Ascii (true, false, true,
                                        false, false, true, true, false)),
                                        (String ((Ascii (false, true, false,
                                        false, true, true, true, false)),
                                        EmptyString))))))))))))), s)
                        else if is_ty (String ((Ascii (false, false, true,
                                  false, true, false, true, false)), (String
                                  ((Ascii (true, true, false, false, true,
                                  true, true, false)), (String ((Ascii
                                  (false, false, true, false, true, false,
                                  true, false)), (String ((Ascii (true,
                                  false, false, true, true, true, true,
                                  false)), (String ((Ascii (false, false,
                                  false, false, true, true, true, false)),
                                  (String ((Ascii (true, false, true, false,
                                  false, true, true, false)), (String ((Ascii
                                  (false, true, false, false, true, false,
                                  true, false)), (String ((Ascii (true,
                                  false, true, false, false, true, true,
                                  false)), (String ((Ascii (false, true,
                                  true, false, false, true, true, false)),
                                  (String ((Ascii (true, false, true, false,
                                  false, true, true, false)), (String ((Ascii
                                  (false, true, false, false, true, true,
                                  true, false)), (String ((Ascii (true,
                                  false, true, false, false, true, true,
                                  false)), (String ((Ascii (false, true,
                                  true, true, false, true, true, false)),
                                  (String ((Ascii (true, true, false, false,
                                  false, true, true, false)), (String ((Ascii
                                  (true, false, true, false, false, true,
                                  true, false)),
                                  EmptyString)))))))))))))))))))))))))))))) ty
                             then (match ref_ident ty with
                                   | Some p ->
                                     let (sym, c) = p in
                                     (match reg_get sym c s.aliases with
                                      | Some aliased -> irt e f aliased s
                                      | None ->
                                        (match reg_get sym c s.interfaces with
                                         | Some i ->
                                           ((members_runtime (iface_body i)),
                                             s)
                                         | None ->
                                           let ps = type_params ty in
                                           if mem_str sym
                                                (map s_ ((String ((Ascii
                                                  (true, false, false, false,
                                                  false, false, true,
                                                  false)), (String ((Ascii
                                                  (false, true, false, false,
                                                  true, true, true, false)),
                                                  (String ((Ascii (false,
                                                  true, false, false, true,
                                                  true, true, false)),
                                                  (String ((Ascii (true,
                                                  false, false, false, false,
                                                  true, true, false)),
                                                  (String ((Ascii (true,
                                                  false, false, true, true,
                                                  true, true, false)),
                                                  EmptyString)))))))))) :: ((String
                                                  ((Ascii (false, true, true,
                                                  false, false, false, true,
                                                  false)), (String ((Ascii
                                                  (true, false, true, false,
                                                  true, true, true, false)),
                                                  (String ((Ascii (false,
                                                  true, true, true, false,
                                                  true, true, false)),
                                                  (String ((Ascii (true,
                                                  true, false, false, false,
                                                  true, true, false)),
                                                  (String ((Ascii (false,
                                                  false, true, false, true,
                                                  true, true, false)),
                                                  (String ((Ascii (true,
                                                  false, false, true, false,
                                                  true, true, false)),
                                                  (String ((Ascii (true,
                                                  true, true, true, false,
                                                  true, true, false)),
                                                  (String ((Ascii (false,
                                                  true, true, true, false,
                                                  true, true, false)),
                                                  EmptyString)))))))))))))))) :: ((String
                                                  ((Ascii (true, true, true,
                                                  true, false, false, true,
                                                  false)), (String ((Ascii
                                                  (false, true, false, false,
                                                  false, true, true, false)),
                                                  (String ((Ascii (false,
                                                  true, false, true, false,
                                                  true, true, false)),
                                                  (String ((Ascii (true,
                                                  false, true, false, false,
                                                  true, true, false)),
                                                  (String ((Ascii (true,
                                                  true, false, false, false,
                                                  true, true, false)),
                                                  (String ((Ascii (false,
                                                  false, true, false, true,
                                                  true, true, false)),
                                                  EmptyString)))))))))))) :: ((String
                                                  ((Ascii (true, true, false,
                                                  false, true, false, true,
                                                  false)), (String ((Ascii
                                                  (true, false, true, false,
                                                  false, true, true, false)),
                                                  (String ((Ascii (false,
                                                  false, true, false, true,
                                                  true, true, false)),
                                                  EmptyString)))))) :: ((String
                                                  ((Ascii (true, false, true,
                                                  true, false, false, true,
                                                  false)), (String ((Ascii
                                                  (true, false, false, false,
                                                  false, true, true, false)),
                                                  (String ((Ascii (false,
                                                  false, false, false, true,
                                                  true, true, false)),
                                                  EmptyString)))))) :: ((String
                                                  ((Ascii (true, true, true,
                                                  false, true, false, true,
                                                  false)), (String ((Ascii
                                                  (true, false, true, false,
                                                  false, true, true, false)),
                                                  (String ((Ascii (true,
                                                  false, false, false, false,
                                                  true, true, false)),
                                                  (String ((Ascii (true,
                                                  true, false, true, false,
                                                  true, true, false)),
                                                  (String ((Ascii (true,
                                                  true, false, false, true,
                                                  false, true, false)),
                                                  (String ((Ascii (true,
                                                  false, true, false, false,
                                                  true, true, false)),
                                                  (String ((Ascii (false,
                                                  false, true, false, true,
                                                  true, true, false)),
                                                  EmptyString)))))))))))))) :: ((String
                                                  ((Ascii (true, true, true,
                                                  false, true, false, true,
                                                  false)), (String ((Ascii
                                                  (true, false, true, false,
                                                  false, true, true, false)),
                                                  (String ((Ascii (true,
                                                  false, false, false, false,
                                                  true, true, false)),
                                                  (String ((Ascii (true,
                                                  true, false, true, false,
                                                  true, true, false)),
                                                  (String ((Ascii (true,
                                                  false, true, true, false,
                                                  false, true, false)),
                                                  (String ((Ascii (true,
                                                  false, false, false, false,
                                                  true, true, false)),
                                                  (String ((Ascii (false,
                                                  false, false, false, true,
                                                  true, true, false)),
                                                  EmptyString)))))))))))))) :: ((String
                                                  ((Ascii (false, false,
                                                  true, false, false, false,
                                                  true, false)), (String
                                                  ((Ascii (true, false,
                                                  false, false, false, true,
                                                  true, false)), (String
                                                  ((Ascii (false, false,
                                                  true, false, true, true,
                                                  true, false)), (String
                                                  ((Ascii (true, false, true,
                                                  false, false, true, true,
                                                  false)),
                                                  EmptyString)))))))) :: ((String
                                                  ((Ascii (false, false,
                                                  false, false, true, false,
                                                  true, false)), (String
                                                  ((Ascii (false, true,
                                                  false, false, true, true,
                                                  true, false)), (String
                                                  ((Ascii (true, true, true,
                                                  true, false, true, true,
                                                  false)), (String ((Ascii
                                                  (true, false, true, true,
                                                  false, true, true, false)),
                                                  (String ((Ascii (true,
                                                  false, false, true, false,
                                                  true, true, false)),
                                                  (String ((Ascii (true,
                                                  true, false, false, true,
                                                  true, true, false)),
                                                  (String ((Ascii (true,
                                                  false, true, false, false,
                                                  true, true, false)),
                                                  EmptyString)))))))))))))) :: ((String
                                                  ((Ascii (true, false, true,
                                                  false, false, false, true,
                                                  false)), (String ((Ascii
                                                  (false, true, false, false,
                                                  true, true, true, false)),
                                                  (String ((Ascii (false,
                                                  true, false, false, true,
                                                  true, true, false)),
                                                  (String ((Ascii (true,
                                                  true, true, true, false,
                                                  true, true, false)),
                                                  (String ((Ascii (false,
                                                  true, false, false, true,
                                                  true, true, false)),
                                                  EmptyString)))))))))) :: ((String
                                                  ((Ascii (false, true,
                                                  false, false, true, false,
                                                  true, false)), (String
                                                  ((Ascii (true, false, true,
                                                  false, false, true, true,
                                                  false)), (String ((Ascii
                                                  (true, true, true, false,
                                                  false, true, true, false)),
                                                  (String ((Ascii (true,
                                                  false, true, false, false,
                                                  false, true, false)),
                                                  (String ((Ascii (false,
                                                  false, false, true, true,
                                                  true, true, false)),
                                                  (String ((Ascii (false,
                                                  false, false, false, true,
                                                  true, true, false)),
                                                  EmptyString)))))))))))) :: []))))))))))))
                                           then (((Some sym) :: []), s)
                                           else if mem_str sym
                                                     (map s_ ((String ((Ascii
                                                       (false, false, false,
                                                       false, true, false,
                                                       true, false)), (String
                                                       ((Ascii (true, false,
                                                       false, false, false,
                                                       true, true, false)),
                                                       (String ((Ascii
                                                       (false, true, false,
                                                       false, true, true,
                                                       true, false)), (String
                                                       ((Ascii (false, false,
                                                       true, false, true,
                                                       true, true, false)),
                                                       (String ((Ascii (true,
                                                       false, false, true,
                                                       false, true, true,
                                                       false)), (String
                                                       ((Ascii (true, false,
                                                       false, false, false,
                                                       true, true, false)),
                                                       (String ((Ascii
                                                       (false, false, true,
                                                       true, false, true,
                                                       true, false)),
                                                       EmptyString)))))))))))))) :: ((String
                                                       ((Ascii (false, true,
                                                       false, false, true,
                                                       false, true, false)),
                                                       (String ((Ascii (true,
                                                       false, true, false,
                                                       false, true, true,
                                                       false)), (String
                                                       ((Ascii (true, false,
                                                       false, false, true,
                                                       true, true, false)),
                                                       (String ((Ascii (true,
                                                       false, true, false,
                                                       true, true, true,
                                                       false)), (String
                                                       ((Ascii (true, false,
                                                       false, true, false,
                                                       true, true, false)),
                                                       (String ((Ascii
                                                       (false, true, false,
                                                       false, true, true,
                                                       true, false)), (String
                                                       ((Ascii (true, false,
                                                       true, false, false,
                                                       true, true, false)),
                                                       (String ((Ascii
                                                       (false, false, true,
                                                       false, false, true,
                                                       true, false)),
                                                       EmptyString)))))))))))))))) :: ((String
                                                       ((Ascii (false, true,
                                                       false, false, true,
                                                       false, true, false)),
                                                       (String ((Ascii (true,
                                                       false, true, false,
                                                       false, true, true,
                                                       false)), (String
                                                       ((Ascii (true, false,
                                                       false, false, false,
                                                       true, true, false)),
                                                       (String ((Ascii
                                                       (false, false, true,
                                                       false, false, true,
                                                       true, false)), (String
                                                       ((Ascii (true, true,
                                                       true, true, false,
                                                       true, true, false)),
                                                       (String ((Ascii
                                                       (false, true, true,
                                                       true, false, true,
                                                       true, false)), (String
                                                       ((Ascii (false, false,
                                                       true, true, false,
                                                       true, true, false)),
                                                       (String ((Ascii (true,
                                                       false, false, true,
                                                       true, true, true,
                                                       false)),
                                                       EmptyString)))))))))))))))) :: ((String
                                                       ((Ascii (false, true,
                                                       false, false, true,
                                                       false, true, false)),
                                                       (String ((Ascii (true,
                                                       false, true, false,
                                                       false, true, true,
                                                       false)), (String
                                                       ((Ascii (true, true,
                                                       false, false, false,
                                                       true, true, false)),
                                                       (String ((Ascii (true,
                                                       true, true, true,
                                                       false, true, true,
                                                       false)), (String
                                                       ((Ascii (false, true,
                                                       false, false, true,
                                                       true, true, false)),
                                                       (String ((Ascii
                                                       (false, false, true,
                                                       false, false, true,
                                                       true, false)),
                                                       EmptyString)))))))))))) :: ((String
                                                       ((Ascii (false, false,
                                                       false, false, true,
                                                       false, true, false)),
                                                       (String ((Ascii (true,
                                                       false, false, true,
                                                       false, true, true,
                                                       false)), (String
                                                       ((Ascii (true, true,
                                                       false, false, false,
                                                       true, true, false)),
                                                       (String ((Ascii (true,
                                                       true, false, true,
                                                       false, true, true,
                                                       false)),
                                                       EmptyString)))))))) :: ((String
                                                       ((Ascii (true, true,
                                                       true, true, false,
                                                       false, true, false)),
                                                       (String ((Ascii (true,
                                                       false, true, true,
                                                       false, true, true,
                                                       false)), (String
                                                       ((Ascii (true, false,
                                                       false, true, false,
                                                       true, true, false)),
                                                       (String ((Ascii
                                                       (false, false, true,
                                                       false, true, true,
                                                       true, false)),
                                                       EmptyString)))))))) :: ((String
                                                       ((Ascii (true, false,
                                                       false, true, false,
                                                       false, true, false)),
                                                       (String ((Ascii
                                                       (false, true, true,
                                                       true, false, true,
                                                       true, false)), (String
                                                       ((Ascii (true, true,
                                                       false, false, true,
                                                       true, true, false)),
                                                       (String ((Ascii
                                                       (false, false, true,
                                                       false, true, true,
                                                       true, false)), (String
                                                       ((Ascii (true, false,
                                                       false, false, false,
                                                       true, true, false)),
                                                       (String ((Ascii
                                                       (false, true, true,
                                                       true, false, true,
                                                       true, false)), (String
                                                       ((Ascii (true, true,
                                                       false, false, false,
                                                       true, true, false)),
                                                       (String ((Ascii (true,
                                                       false, true, false,
                                                       false, true, true,
                                                       false)), (String
                                                       ((Ascii (false, false,
                                                       true, false, true,
                                                       false, true, false)),
                                                       (String ((Ascii (true,
                                                       false, false, true,
                                                       true, true, true,
                                                       false)), (String
                                                       ((Ascii (false, false,
                                                       false, false, true,
                                                       true, true, false)),
                                                       (String ((Ascii (true,
                                                       false, true, false,
                                                       false, true, true,
                                                       false)),
                                                       EmptyString)))))))))))))))))))))))) :: []))))))))
                                                then ((one (String ((Ascii
                                                        (true, true, true,
                                                        true, false, false,
                                                        true, false)),
                                                        (String ((Ascii
                                                        (false, true, false,
                                                        false, false, true,
                                                        true, false)),
                                                        (String ((Ascii
                                                        (false, true, false,
                                                        true, false, true,
                                                        true, false)),
                                                        (String ((Ascii
                                                        (true, false, true,
                                                        false, false, true,
                                                        true, false)),
                                                        (String ((Ascii
                                                        (true, true, false,
                                                        false, false, true,
                                                        true, false)),
                                                        (String ((Ascii
                                                        (false, false, true,
                                                        false, true, true,
                                                        true, false)),
                                                        EmptyString))))))))))))),
                                                       s)
                                                else if mem_str sym
                                                          (map s_ ((String
                                                            ((Ascii (true,
                                                            false, true,
                                                            false, true,
                                                            false, true,
                                                            false)), (String
                                                            ((Ascii (false,
                                                            false, false,
                                                            false, true,
                                                            true, true,
                                                            false)), (String
                                                            ((Ascii (false,
                                                            false, false,
                                                            false, true,
                                                            true, true,
                                                            false)), (String
                                                            ((Ascii (true,
                                                            false, true,
                                                            false, false,
                                                            true, true,
                                                            false)), (String
                                                            ((Ascii (false,
                                                            true, false,
                                                            false, true,
                                                            true, true,
                                                            false)), (String
                                                            ((Ascii (true,
                                                            true, false,
                                                            false, false,
                                                            true, true,
                                                            false)), (String
                                                            ((Ascii (true,
                                                            false, false,
                                                            false, false,
                                                            true, true,
                                                            false)), (String
                                                            ((Ascii (true,
                                                            true, false,
                                                            false, true,
                                                            true, true,
                                                            false)), (String
                                                            ((Ascii (true,
                                                            false, true,
                                                            false, false,
                                                            true, true,
                                                            false)),
                                                            EmptyString)))))))))))))))))) :: ((String
                                                            ((Ascii (false,
                                                            false, true,
                                                            true, false,
                                                            false, true,
                                                            false)), (String
                                                            ((Ascii (true,
                                                            true, true, true,
                                                            false, true,
                                                            true, false)),
                                                            (String ((Ascii
                                                            (true, true,
                                                            true, false,
                                                            true, true, true,
                                                            false)), (String
                                                            ((Ascii (true,
                                                            false, true,
                                                            false, false,
                                                            true, true,
                                                            false)), (String
                                                            ((Ascii (false,
                                                            true, false,
                                                            false, true,
                                                            true, true,
                                                            false)), (String
                                                            ((Ascii (true,
                                                            true, false,
                                                            false, false,
                                                            true, true,
                                                            false)), (String
                                                            ((Ascii (true,
                                                            false, false,
                                                            false, false,
                                                            true, true,
                                                            false)), (String
                                                            ((Ascii (true,
                                                            true, false,
                                                            false, true,
                                                            true, true,
                                                            false)), (String
                                                            ((Ascii (true,
                                                            false, true,
                                                            false, false,
                                                            true, true,
                                                            false)),
                                                            EmptyString)))))))))))))))))) :: ((String
                                                            ((Ascii (true,
                                                            true, false,
                                                            false, false,
                                                            false, true,
                                                            false)), (String
                                                            ((Ascii (true,
                                                            false, false,
                                                            false, false,
                                                            true, true,
                                                            false)), (String
                                                            ((Ascii (false,
                                                            false, false,
                                                            false, true,
                                                            true, true,
                                                            false)), (String
                                                            ((Ascii (true,
                                                            false, false,
                                                            true, false,
                                                            true, true,
                                                            false)), (String
                                                            ((Ascii (false,
                                                            false, true,
                                                            false, true,
                                                            true, true,
                                                            false)), (String
                                                            ((Ascii (true,
                                                            false, false,
                                                            false, false,
                                                            true, true,
                                                            false)), (String
                                                            ((Ascii (false,
                                                            false, true,
                                                            true, false,
                                                            true, true,
                                                            false)), (String
                                                            ((Ascii (true,
                                                            false, false,
                                                            true, false,
                                                            true, true,
                                                            false)), (String
                                                            ((Ascii (false,
                                                            true, false,
                                                            true, true, true,
                                                            true, false)),
                                                            (String ((Ascii
                                                            (true, false,
                                                            true, false,
                                                            false, true,
                                                            true, false)),
                                                            EmptyString)))))))))))))))))))) :: ((String
                                                            ((Ascii (true,
                                                            false, true,
                                                            false, true,
                                                            false, true,
                                                            false)), (String
                                                            ((Ascii (false,
                                                            true, true, true,
                                                            false, true,
                                                            true, false)),
                                                            (String ((Ascii
                                                            (true, true,
                                                            false, false,
                                                            false, true,
                                                            true, false)),
                                                            (String ((Ascii
                                                            (true, false,
                                                            false, false,
                                                            false, true,
                                                            true, false)),
                                                            (String ((Ascii
                                                            (false, false,
                                                            false, false,
                                                            true, true, true,
                                                            false)), (String
                                                            ((Ascii (true,
                                                            false, false,
                                                            true, false,
                                                            true, true,
                                                            false)), (String
                                                            ((Ascii (false,
                                                            false, true,
                                                            false, true,
                                                            true, true,
                                                            false)), (String
                                                            ((Ascii (true,
                                                            false, false,
                                                            false, false,
                                                            true, true,
                                                            false)), (String
                                                            ((Ascii (false,
                                                            false, true,
                                                            true, false,
                                                            true, true,
                                                            false)), (String
                                                            ((Ascii (true,
                                                            false, false,
                                                            true, false,
                                                            true, true,
                                                            false)), (String
                                                            ((Ascii (false,
                                                            true, false,
                                                            true, true, true,
                                                            true, false)),
                                                            (String ((Ascii
                                                            (true, false,
                                                            true, false,
                                                            false, true,
                                                            true, false)),
                                                            EmptyString)))))))))))))))))))))))) :: [])))))
                                                     then ((one (String
                                                             ((Ascii (true,
                                                             true, false,
                                                             false, true,
                                                             false, true,
                                                             false)), (String
                                                             ((Ascii (false,
                                                             false, true,
                                                             false, true,
                                                             true, true,
                                                             false)), (String
                                                             ((Ascii (false,
                                                             true, false,
                                                             false, true,
                                                             true, true,
                                                             false)), (String
                                                             ((Ascii (true,
                                                             false, false,
                                                             true, false,
                                                             true, true,
                                                             false)), (String
                                                             ((Ascii (false,
                                                             true, true,
                                                             true, false,
                                                             true, true,
                                                             false)), (String
                                                             ((Ascii (true,
                                                             true, true,
                                                             false, false,
                                                             true, true,
                                                             false)),
                                                             EmptyString))))))))))))),
                                                            s)
                                                     else if mem_str sym
                                                               (map s_
                                                                 ((String
                                                                 ((Ascii
                                                                 (false,
                                                                 false,
                                                                 false,
                                                                 false, true,
                                                                 false, true,
                                                                 false)),
                                                                 (String
                                                                 ((Ascii
                                                                 (true,
                                                                 false,
                                                                 false,
                                                                 false,
                                                                 false, true,
                                                                 true,
                                                                 false)),
                                                                 (String
                                                                 ((Ascii
                                                                 (false,
                                                                 true, false,
                                                                 false, true,
                                                                 true, true,
                                                                 false)),
                                                                 (String
                                                                 ((Ascii
                                                                 (true,
                                                                 false,
                                                                 false,
                                                                 false,
                                                                 false, true,
                                                                 true,
                                                                 false)),
                                                                 (String
                                                                 ((Ascii
                                                                 (true,
                                                                 false, true,
                                                                 true, false,
                                                                 true, true,
                                                                 false)),
                                                                 (String
                                                                 ((Ascii
                                                                 (true,
                                                                 false, true,
                                                                 false,
                                                                 false, true,
                                                                 true,
                                                                 false)),
                                                                 (String
                                                                 ((Ascii
                                                                 (false,
                                                                 false, true,
                                                                 false, true,
                                                                 true, true,
                                                                 false)),
                                                                 (String
                                                                 ((Ascii
                                                                 (true,
                                                                 false, true,
                                                                 false,
                                                                 false, true,
                                                                 true,
                                                                 false)),
                                                                 (String
                                                                 ((Ascii
                                                                 (false,
                                                                 true, false,
                                                                 false, true,
                                                                 true, true,
                                                                 false)),
                                                                 (String
                                                                 ((Ascii
                                                                 (true, true,
                                                                 false,
                                                                 false, true,
                                                                 true, true,
                                                                 false)),
                                                                 EmptyString)))))))))))))))))))) :: ((String
                                                                 ((Ascii
                                                                 (true, true,
                                                                 false,
                                                                 false,
                                                                 false,
                                                                 false, true,
                                                                 false)),
                                                                 (String
                                                                 ((Ascii
                                                                 (true, true,
                                                                 true, true,
                                                                 false, true,
                                                                 true,
                                                                 false)),
                                                                 (String
                                                                 ((Ascii
                                                                 (false,
                                                                 true, true,
                                                                 true, false,
                                                                 true, true,
                                                                 false)),
                                                                 (String
                                                                 ((Ascii
                                                                 (true, true,
                                                                 false,
                                                                 false, true,
                                                                 true, true,
                                                                 false)),
                                                                 (String
                                                                 ((Ascii
                                                                 (false,
                                                                 false, true,
                                                                 false, true,
                                                                 true, true,
                                                                 false)),
                                                                 (String
                                                                 ((Ascii
                                                                 (false,
                                                                 true, false,
                                                                 false, true,
                                                                 true, true,
                                                                 false)),
                                                                 (String
                                                                 ((Ascii
                                                                 (true,
                                                                 false, true,
                                                                 false, true,
                                                                 true, true,
                                                                 false)),
                                                                 (String
                                                                 ((Ascii
                                                                 (true, true,
                                                                 false,
                                                                 false,
                                                                 false, true,
                                                                 true,
                                                                 false)),
                                                                 (String
                                                                 ((Ascii
                                                                 (false,
                                                                 false, true,
                                                                 false, true,
                                                                 true, true,
                                                                 false)),
                                                                 (String
                                                                 ((Ascii
                                                                 (true, true,
                                                                 true, true,
                                                                 false, true,
                                                                 true,
                                                                 false)),
                                                                 (String
                                                                 ((Ascii
                                                                 (false,
                                                                 true, false,
                                                                 false, true,
                                                                 true, true,
                                                                 false)),
                                                                 (String
                                                                 ((Ascii
                                                                 (false,
                                                                 false,
                                                                 false,
                                                                 false, true,
                                                                 false, true,
                                                                 false)),
                                                                 (String
                                                                 ((Ascii
                                                                 (true,
                                                                 false,
                                                                 false,
                                                                 false,
                                                                 false, true,
                                                                 true,
                                                                 false)),
                                                                 (String
                                                                 ((Ascii
                                                                 (false,
                                                                 true, false,
                                                                 false, true,
                                                                 true, true,
                                                                 false)),
                                                                 (String
                                                                 ((Ascii
                                                                 (true,
                                                                 false,
                                                                 false,
                                                                 false,
                                                                 false, true,
                                                                 true,
                                                                 false)),
                                                                 (String
                                                                 ((Ascii
                                                                 (true,
                                                                 false, true,
                                                                 true, false,
                                                                 true, true,
                                                                 false)),
                                                                 (String
                                                                 ((Ascii
                                                                 (true,
                                                                 false, true,
                                                                 false,
                                                                 false, true,
                                                                 true,
                                                                 false)),
                                                                 (String
                                                                 ((Ascii
                                                                 (false,
                                                                 false, true,
                                                                 false, true,
                                                                 true, true,
                                                                 false)),
                                                                 (String
                                                                 ((Ascii
                                                                 (true,
                                                                 false, true,
                                                                 false,
                                                                 false, true,
                                                                 true,
                                                                 false)),
                                                                 (String
                                                                 ((Ascii
                                                                 (false,
                                                                 true, false,
                                                                 false, true,
                                                                 true, true,
                                                                 false)),
                                                                 (String
                                                                 ((Ascii
                                                                 (true, true,
                                                                 false,
                                                                 false, true,
                                                                 true, true,
                                                                 false)),
                                                                 EmptyString)))))))))))))))))))))))))))))))))))))))))) :: [])))
                                                          then ((one (String
                                                                  ((Ascii
                                                                  (true,
                                                                  false,
                                                                  false,
                                                                  false,
                                                                  false,
                                                                  false,
                                                                  true,
                                                                  false)),
                                                                  (String
                                                                  ((Ascii
                                                                  (false,
                                                                  true,
                                                                  false,
                                                                  false,
                                                                  true, true,
                                                                  true,
                                                                  false)),
                                                                  (String
                                                                  ((Ascii
                                                                  (false,
                                                                  true,
                                                                  false,
                                                                  false,
                                                                  true, true,
                                                                  true,
                                                                  false)),
                                                                  (String
                                                                  ((Ascii
                                                                  (true,
                                                                  false,
                                                                  false,
                                                                  false,
                                                                  false,
                                                                  true, true,
                                                                  false)),
                                                                  (String
                                                                  ((Ascii
                                                                  (true,
                                                                  false,
                                                                  false,
                                                                  true, true,
                                                                  true, true,
                                                                  false)),
                                                                  EmptyString))))))))))),
                                                                 s)
                                                          else if sq (String
                                                                    ((Ascii
                                                                    (false,
                                                                    true,
                                                                    true,
                                                                    true,
                                                                    false,
                                                                    false,
                                                                    true,
                                                                    false)),
                                                                    (String
                                                                    ((Ascii
                                                                    (true,
                                                                    true,
                                                                    true,
                                                                    true,
                                                                    false,
                                                                    true,
                                                                    true,
                                                                    false)),
                                                                    (String
                                                                    ((Ascii
                                                                    (false,
                                                                    true,
                                                                    true,
                                                                    true,
                                                                    false,
                                                                    true,
                                                                    true,
                                                                    false)),
                                                                    (String
                                                                    ((Ascii
                                                                    (false,
                                                                    true,
                                                                    true,
                                                                    true,
                                                                    false,
                                                                    false,
                                                                    true,
                                                                    false)),
                                                                    (String
                                                                    ((Ascii
                                                                    (true,
                                                                    false,
                                                                    true,
                                                                    false,
                                                                    true,
                                                                    true,
                                                                    true,
                                                                    false)),
                                                                    (String
                                                                    ((Ascii
                                                                    (false,
                                                                    false,
                                                                    true,
                                                                    true,
                                                                    false,
                                                                    true,
                                                                    true,
                                                                    false)),
                                                                    (String
                                                                    ((Ascii
                                                                    (false,
                                                                    false,
                                                                    true,
                                                                    true,
                                                                    false,
                                                                    true,
                                                                    true,
                                                                    false)),
                                                                    (String
                                                                    ((Ascii
                                                                    (true,
                                                                    false,
                                                                    false,
                                                                    false,
                                                                    false,
                                                                    true,
                                                                    true,
                                                                    false)),
                                                                    (String
                                                                    ((Ascii
                                                                    (false,
                                                                    true,
                                                                    false,
                                                                    false,
                                                                    false,
                                                                    true,
                                                                    true,
                                                                    false)),
                                                                    (String
                                                                    ((Ascii
                                                                    (false,
                                                                    false,
                                                                    true,
                                                                    true,
                                                                    false,
                                                                    true,
                                                                    true,
                                                                    false)),
                                                                    (String
                                                                    ((Ascii
                                                                    (true,
                                                                    false,
                                                                    true,
                                                                    false,
                                                                    false,
                                                                    true,
                                                                    true,
                                                                    false)),
                                                                    EmptyString))))))))))))))))))))))
                                                                    sym
                                                               then (match ps with
                                                                    | [] ->
                                                                    ((one
                                                                    (String
                                                                    ((Ascii
                                                                    (true,
                                                                    true,
                                                                    true,
                                                                    true,
                                                                    false,
                                                                    false,
                                                                    true,
                                                                    false)),
                                                                    (String
                                                                    ((Ascii
                                                                    (false,
                                                                    true,
                                                                    false,
                                                                    false,
                                                                    false,
                                                                    true,
                                                                    true,
                                                                    false)),
                                                                    (String
                                                                    ((Ascii
                                                                    (false,
                                                                    true,
                                                                    false,
                                                                    true,
                                                                    false,
                                                                    true,
                                                                    true,
                                                                    false)),
                                                                    (String
                                                                    ((Ascii
                                                                    (true,
                                                                    false,
                                                                    true,
                                                                    false,
                                                                    false,
                                                                    true,
                                                                    true,
                                                                    false)),
                                                                    (String
                                                                    ((Ascii
                                                                    (true,
                                                                    true,
                                                                    false,
                                                                    false,
                                                                    false,
                                                                    true,
                                                                    true,
                                                                    false)),
                                                                    (String
                                                                    ((Ascii
                                                                    (false,
                                                                    false,
                                                                    true,
                                                                    false,
                                                                    true,
                                                                    true,
                                                                    true,
                                                                    false)),
                                                                    EmptyString))))))))))))),
                                                                    s)
                                                                    | p0 :: _ ->
                                                                    let (
                                                                    ts, s0) =
                                                                    irt e f
                                                                    p0 s
                                                                    in
                                                                    (
                                                                    (filter
                                                                    (fun t ->
                                                                    match t with
                                                                    | Some _ ->
                                                                    true
                                                                    | None ->
                                                                    false) ts),
                                                                    s0))
                                                               else if 
                                                                    (||)
                                                                    (sq
                                                                    (String
                                                                    ((Ascii
                                                                    (true,
                                                                    false,
                                                                    true,
                                                                    false,
                                                                    false,
                                                                    false,
                                                                    true,
                                                                    false)),
                                                                    (String
                                                                    ((Ascii
                                                                    (false,
                                                                    false,
                                                                    false,
                                                                    true,
                                                                    true,
                                                                    true,
                                                                    true,
                                                                    false)),
                                                                    (String
                                                                    ((Ascii
                                                                    (true,
                                                                    true,
                                                                    false,
                                                                    false,
                                                                    false,
                                                                    true,
                                                                    true,
                                                                    false)),
                                                                    (String
                                                                    ((Ascii
                                                                    (false,
                                                                    false,
                                                                    true,
                                                                    true,
                                                                    false,
                                                                    true,
                                                                    true,
                                                                    false)),
                                                                    (String
                                                                    ((Ascii
                                                                    (true,
                                                                    false,
                                                                    true,
                                                                    false,
                                                                    true,
                                                                    true,
                                                                    true,
                                                                    false)),
                                                                    (String
                                                                    ((Ascii
                                                                    (false,
                                                                    false,
                                                                    true,
                                                                    false,
                                                                    false,
                                                                    true,
                                                                    true,
                                                                    false)),
                                                                    (String
                                                                    ((Ascii
                                                                    (true,
                                                                    false,
                                                                    true,
                                                                    false,
                                                                    false,
                                                                    true,
                                                                    true,
                                                                    false)),
                                                                    EmptyString))))))))))))))
                                                                    sym)
                                                                    (sq
                                                                    (String
                                                                    ((Ascii
                                                                    (true,
                                                                    true,
                                                                    true,
                                                                    true,
                                                                    false,
                                                                    false,
                                                                    true,
                                                                    false)),
                                                                    (String
                                                                    ((Ascii
                                                                    (true,
                                                                    false,
                                                                    true,
                                                                    true,
                                                                    false,
                                                                    true,
                                                                    true,
                                                                    false)),
                                                                    (String
                                                                    ((Ascii
                                                                    (true,
                                                                    false,
                                                                    false,
                                                                    true,
                                                                    false,
                                                                    true,
                                                                    true,
                                                                    false)),
                                                                    (String
                                                                    ((Ascii
                                                                    (false,
                                                                    false,
                                                                    true,
                                                                    false,
                                                                    true,
                                                                    true,
                                                                    true,
                                                                    false)),
                                                                    (String
                                                                    ((Ascii
                                                                    (false,
                                                                    false,
                                                                    true,
                                                                    false,
                                                                    true,
                                                                    false,
                                                                    true,
                                                                    false)),
                                                                    (String
                                                                    ((Ascii
                                                                    (false,
                                                                    false,
                                                                    false,
                                                                    true,
                                                                    false,
                                                                    true,
                                                                    true,
                                                                    false)),
                                                                    (String
                                                                    ((Ascii
                                                                    (true,
                                                                    false,
                                                                    false,
                                                                    true,
                                                                    false,
                                                                    true,
                                                                    true,
                                                                    false)),
                                                                    (String
                                                                    ((Ascii
                                                                    (true,
                                                                    true,
                                                                    false,
                                                                    false,
                                                                    true,
                                                                    true,
                                                                    true,
                                                                    false)),
                                                                    (String
                                                                    ((Ascii
                                                                    (false,
                                                                    false,
                                                                    false,
                                                                    false,
                                                                    true,
                                                                    false,
                                                                    true,
                                                                    false)),
                                                                    (String
                                                                    ((Ascii
                                                                    (true,
                                                                    false,
                                                                    false,
                                                                    false,
                                                                    false,
                                                                    true,
                                                                    true,
                                                                    false)),
                                                                    (String
                                                                    ((Ascii
                                                                    (false,
                                                                    true,
                                                                    false,
                                                                    false,
                                                                    true,
                                                                    true,
                                                                    true,
                                                                    false)),
                                                                    (String
                                                                    ((Ascii
                                                                    (true,
                                                                    false,
                                                                    false,
                                                                    false,
                                                                    false,
                                                                    true,
                                                                    true,
                                                                    false)),
                                                                    (String
                                                                    ((Ascii
                                                                    (true,
                                                                    false,
                                                                    true,
                                                                    true,
                                                                    false,
                                                                    true,
                                                                    true,
                                                                    false)),
                                                                    (String
                                                                    ((Ascii
                                                                    (true,
                                                                    false,
                                                                    true,
                                                                    false,
                                                                    false,
                                                                    true,
                                                                    true,
                                                                    false)),
                                                                    (String
                                                                    ((Ascii
                                                                    (false,
                                                                    false,
                                                                    true,
                                                                    false,
                                                                    true,
                                                                    true,
                                                                    true,
                                                                    false)),
                                                                    (String
                                                                    ((Ascii
                                                                    (true,
                                                                    false,
                                                                    true,
                                                                    false,
                                                                    false,
                                                                    true,
                                                                    true,
                                                                    false)),
                                                                    (String
                                                                    ((Ascii
                                                                    (false,
                                                                    true,
                                                                    false,
                                                                    false,
                                                                    true,
                                                                    true,
                                                                    true,
                                                                    false)),
                                                                    EmptyString))))))))))))))))))))))))))))))))))
                                                                    sym)
                                                                    then 
                                                                    (match ps with
                                                                    | [] ->
                                                                    ((one
                                                                    (String
                                                                    ((Ascii
                                                                    (true,
                                                                    true,
                                                                    true,
                                                                    true,
                                                                    false,
                                                                    false,
                                                                    true,
                                                                    false)),
                                                                    (String
                                                                    ((Ascii
                                                                    (false,
                                                                    true,
                                                                    false,
                                                                    false,
                                                                    false,
                                                                    true,
                                                                    true,
                                                                    false)),
                                                                    (String
                                                                    ((Ascii
                                                                    (false,
                                                                    true,
                                                                    false,
                                                                    true,
                                                                    false,
                                                                    true,
                                                                    true,
                                                                    false)),
                                                                    (String
                                                                    ((Ascii
                                                                    (true,
                                                                    false,
                                                                    true,
                                                                    false,
                                                                    false,
                                                                    true,
                                                                    true,
                                                                    false)),
                                                                    (String
                                                                    ((Ascii
                                                                    (true,
                                                                    true,
                                                                    false,
                                                                    false,
                                                                    false,
                                                                    true,
                                                                    true,
                                                                    false)),
                                                                    (String
                                                                    ((Ascii
                                                                    (false,
                                                                    false,
                                                                    true,
                                                                    false,
                                                                    true,
                                                                    true,
                                                                    true,
                                                                    false)),
                                                                    EmptyString))))))))))))),
                                                                    s)
                                                                    | p0 :: _ ->
                                                                    irt e f
                                                                    p0 s)
                                                                    else 
                                                                    if 
                                                                    sq
                                                                    (String
                                                                    ((Ascii
                                                                    (true,
                                                                    false,
                                                                    true,
                                                                    false,
                                                                    false,
                                                                    false,
                                                                    true,
                                                                    false)),
                                                                    (String
                                                                    ((Ascii
                                                                    (false,
                                                                    false,
                                                                    false,
                                                                    true,
                                                                    true,
                                                                    true,
                                                                    true,
                                                                    false)),
                                                                    (String
                                                                    ((Ascii
                                                                    (false,
                                                                    false,
                                                                    true,
                                                                    false,
                                                                    true,
                                                                    true,
                                                                    true,
                                                                    false)),
                                                                    (String
                                                                    ((Ascii
                                                                    (false,
                                                                    true,
                                                                    false,
                                                                    false,
                                                                    true,
                                                                    true,
                                                                    true,
                                                                    false)),
                                                                    (String
                                                                    ((Ascii
                                                                    (true,
                                                                    false,
                                                                    false,
                                                                    false,
                                                                    false,
                                                                    true,
                                                                    true,
                                                                    false)),
                                                                    (String
                                                                    ((Ascii
                                                                    (true,
                                                                    true,
                                                                    false,
                                                                    false,
                                                                    false,
                                                                    true,
                                                                    true,
                                                                    false)),
                                                                    (String
                                                                    ((Ascii
                                                                    (false,
                                                                    false,
                                                                    true,
                                                                    false,
                                                                    true,
                                                                    true,
                                                                    true,
                                                                    false)),
                                                                    EmptyString))))))))))))))
                                                                    sym
                                                                    then 
                                                                    (match ps with
                                                                    | [] ->
                                                                    ((one
                                                                    (String
                                                                    ((Ascii
                                                                    (true,
                                                                    true,
                                                                    true,
                                                                    true,
                                                                    false,
                                                                    false,
                                                                    true,
                                                                    false)),
                                                                    (String
                                                                    ((Ascii
                                                                    (false,
                                                                    true,
                                                                    false,
                                                                    false,
                                                                    false,
                                                                    true,
                                                                    true,
                                                                    false)),
                                                                    (String
                                                                    ((Ascii
                                                                    (false,
                                                                    true,
                                                                    false,
                                                                    true,
                                                                    false,
                                                                    true,
                                                                    true,
                                                                    false)),
                                                                    (String
                                                                    ((Ascii
                                                                    (true,
                                                                    false,
                                                                    true,
                                                                    false,
                                                                    false,
                                                                    true,
                                                                    true,
                                                                    false)),
                                                                    (String
                                                                    ((Ascii
                                                                    (true,
                                                                    true,
                                                                    false,
                                                                    false,
                                                                    false,
                                                                    true,
                                                                    true,
                                                                    false)),
                                                                    (String
                                                                    ((Ascii
                                                                    (false,
                                                                    false,
                                                                    true,
                                                                    false,
                                                                    true,
                                                                    true,
                                                                    true,
                                                                    false)),
                                                                    EmptyString))))))))))))),
                                                                    s)
                                                                    | _ :: l ->
                                                                    (match l with
                                                                    | [] ->
                                                                    ((one
                                                                    (String
                                                                    ((Ascii
                                                                    (true,
                                                                    true,
                                                                    true,
                                                                    true,
                                                                    false,
                                                                    false,
                                                                    true,
                                                                    false)),
                                                                    (String
                                                                    ((Ascii
                                                                    (false,
                                                                    true,
                                                                    false,
                                                                    false,
                                                                    false,
                                                                    true,
                                                                    true,
                                                                    false)),
                                                                    (String
                                                                    ((Ascii
                                                                    (false,
                                                                    true,
                                                                    false,
                                                                    true,
                                                                    false,
                                                                    true,
                                                                    true,
                                                                    false)),
                                                                    (String
                                                                    ((Ascii
                                                                    (true,
                                                                    false,
                                                                    true,
                                                                    false,
                                                                    false,
                                                                    true,
                                                                    true,
                                                                    false)),
                                                                    (String
                                                                    ((Ascii
                                                                    (true,
                                                                    true,
                                                                    false,
                                                                    false,
                                                                    false,
                                                                    true,
                                                                    true,
                                                                    false)),
                                                                    (String
                                                                    ((Ascii
                                                                    (false,
                                                                    false,
                                                                    true,
                                                                    false,
                                                                    true,
                                                                    true,
                                                                    true,
                                                                    false)),
                                                                    EmptyString))))))))))))),
                                                                    s)
                                                                    | p0 :: _ ->
                                                                    irt e f
                                                                    p0 s))
                                                                    else 
                                                                    ((one
                                                                    (String
                                                                    ((Ascii
                                                                    (true,
                                                                    true,
                                                                    true,
                                                                    true,
                                                                    false,
                                                                    false,
                                                                    true,
                                                                    false)),
                                                                    (String
                                                                    ((Ascii
                                                                    (false,
                                                                    true,
                                                                    false,
                                                                    false,
                                                                    false,
                                                                    true,
                                                                    true,
                                                                    false)),
                                                                    (String
                                                                    ((Ascii
                                                                    (false,
                                                                    true,
                                                                    false,
                                                                    true,
                                                                    false,
                                                                    true,
                                                                    true,
                                                                    false)),
                                                                    (String
                                                                    ((Ascii
                                                                    (true,
                                                                    false,
                                                                    true,
                                                                    false,
                                                                    false,
                                                                    true,
                                                                    true,
                                                                    false)),
                                                                    (String
                                                                    ((Ascii
                                                                    (true,
                                                                    true,
                                                                    false,
                                                                    false,
                                                                    false,
                                                                    true,
                                                                    true,
                                                                    false)),
                                                                    (String
                                                                    ((Ascii
                                                                    (false,
                                                                    false,
                                                                    true,
                                                                    false,
                                                                    true,
                                                                    true,
                                                                    true,
                                                                    false)),
                                                                    EmptyString))))))))))))),
                                                                    s)))
                                   | None ->
                                     ((one (String ((Ascii (true, true, true,
                                        true, false, false, true, false)),
                                        (String ((Ascii (false, true, false,
                                        false, false, true, true, false)),
                                        (String ((Ascii (false, true, false,
                                        true, false, true, true, false)),
                                        (String ((Ascii (true, false, true,
                                        false, false, true, true, false)),
                                        (String ((Ascii (true, true, false,
                                        false, false, true, true, false)),
                                        (String ((Ascii (false, false, true,
                                        false, true, true, true, false)),
                                        EmptyString))))))))))))), s))
                             else if (||)
                                       (is_ty (String ((Ascii (false, false,
                                         true, false, true, false, true,
                                         false)), (String ((Ascii (true,
                                         true, false, false, true, true,
                                         true, false)), (String ((Ascii
                                         (false, false, false, false, true,
                                         false, true, false)), (String
                                         ((Ascii (true, false, false, false,
                                         false, true, true, false)), (String
                                         ((Ascii (false, true, false, false,
                                         true, true, true, false)), (String
                                         ((Ascii (true, false, true, false,
                                         false, true, true, false)), (String
                                         ((Ascii (false, true, true, true,
                                         false, true, true, false)), (String
                                         ((Ascii (false, false, true, false,
                                         true, true, true, false)), (String
                                         ((Ascii (false, false, false, true,
                                         false, true, true, false)), (String
                                         ((Ascii (true, false, true, false,
                                         false, true, true, false)), (String
                                         ((Ascii (true, true, false, false,
                                         true, true, true, false)), (String
                                         ((Ascii (true, false, false, true,
                                         false, true, true, false)), (String
                                         ((Ascii (false, true, false, true,
                                         true, true, true, false)), (String
                                         ((Ascii (true, false, true, false,
                                         false, true, true, false)), (String
                                         ((Ascii (false, false, true, false,
                                         false, true, true, false)), (String
                                         ((Ascii (false, false, true, false,
                                         true, false, true, false)), (String
                                         ((Ascii (true, false, false, true,
                                         true, true, true, false)), (String
                                         ((Ascii (false, false, false, false,
                                         true, true, true, false)), (String
                                         ((Ascii (true, false, true, false,
                                         false, true, true, false)),
                                         EmptyString))))))))))))))))))))))))))))))))))))))
                                         ty)
                                       (is_ty (String ((Ascii (false, false,
                                         true, false, true, false, true,
                                         false)), (String ((Ascii (true,
                                         true, false, false, true, true,
                                         true, false)), (String ((Ascii
                                         (true, true, true, true, false,
                                         false, true, false)), (String
                                         ((Ascii (false, false, false, false,
                                         true, true, true, false)), (String
                                         ((Ascii (false, false, true, false,
                                         true, true, true, false)), (String
                                         ((Ascii (true, false, false, true,
                                         false, true, true, false)), (String
                                         ((Ascii (true, true, true, true,
                                         false, true, true, false)), (String
                                         ((Ascii (false, true, true, true,
                                         false, true, true, false)), (String
                                         ((Ascii (true, false, false, false,
                                         false, true, true, false)), (String
                                         ((Ascii (false, false, true, true,
                                         false, true, true, false)), (String
                                         ((Ascii (false, false, true, false,
                                         true, false, true, false)), (String
                                         ((Ascii (true, false, false, true,
                                         true, true, true, false)), (String
                                         ((Ascii (false, false, false, false,
                                         true, true, true, false)), (String
                                         ((Ascii (true, false, true, false,
                                         false, true, true, false)),
                                         EmptyString))))))))))))))))))))))))))))
                                         ty)
                                  then irt e f
                                         (tf (String ((Ascii (false, false,
                                           true, false, true, true, true,
                                           false)), (String ((Ascii (true,
                                           false, false, true, true, true,
                                           true, false)), (String ((Ascii
                                           (false, false, false, false, true,
                                           true, true, false)), (String
                                           ((Ascii (true, false, true, false,
                                           false, true, true, false)),
                                           (String ((Ascii (true, false,
                                           false, false, false, false, true,
                                           false)), (String ((Ascii (false,
                                           true, true, true, false, true,
                                           true, false)), (String ((Ascii
                                           (false, true, true, true, false,
                                           true, true, false)), (String
                                           ((Ascii (true, true, true, true,
                                           false, true, true, false)),
                                           (String ((Ascii (false, false,
                                           true, false, true, true, true,
                                           false)), (String ((Ascii (true,
                                           false, false, false, false, true,
                                           true, false)), (String ((Ascii
                                           (false, false, true, false, true,
                                           true, true, false)), (String
                                           ((Ascii (true, false, false, true,
                                           false, true, true, false)),
                                           (String ((Ascii (true, true, true,
                                           true, false, true, true, false)),
                                           (String ((Ascii (false, true,
                                           true, true, false, true, true,
                                           false)),
                                           EmptyString))))))))))))))))))))))))))))
                                           ty) s
                                  else if (||)
                                            (is_ty (String ((Ascii (false,
                                              false, true, false, true,
                                              false, true, false)), (String
                                              ((Ascii (true, true, false,
                                              false, true, true, true,
                                              false)), (String ((Ascii (true,
                                              false, true, false, true,
                                              false, true, false)), (String
                                              ((Ascii (false, true, true,
                                              true, false, true, true,
                                              false)), (String ((Ascii (true,
                                              false, false, true, false,
                                              true, true, false)), (String
                                              ((Ascii (true, true, true,
                                              true, false, true, true,
                                              false)), (String ((Ascii
                                              (false, true, true, true,
                                              false, true, true, false)),
                                              (String ((Ascii (false, false,
                                              true, false, true, false, true,
                                              false)), (String ((Ascii (true,
                                              false, false, true, true, true,
                                              true, false)), (String ((Ascii
                                              (false, false, false, false,
                                              true, true, true, false)),
                                              (String ((Ascii (true, false,
                                              true, false, false, true, true,
                                              false)),
                                              EmptyString))))))))))))))))))))))
                                              ty)
                                            (is_ty (String ((Ascii (false,
                                              false, true, false, true,
                                              false, true, false)), (String
                                              ((Ascii (true, true, false,
                                              false, true, true, true,
                                              false)), (String ((Ascii (true,
                                              false, false, true, false,
                                              false, true, false)), (String
                                              ((Ascii (false, true, true,
                                              true, false, true, true,
                                              false)), (String ((Ascii
                                              (false, false, true, false,
                                              true, true, true, false)),
                                              (String ((Ascii (true, false,
                                              true, false, false, true, true,
                                              false)), (String ((Ascii
                                              (false, true, false, false,
                                              true, true, true, false)),
                                              (String ((Ascii (true, true,
                                              false, false, true, true, true,
                                              false)), (String ((Ascii (true,
                                              false, true, false, false,
                                              true, true, false)), (String
                                              ((Ascii (true, true, false,
                                              false, false, true, true,
                                              false)), (String ((Ascii
                                              (false, false, true, false,
                                              true, true, true, false)),
                                              (String ((Ascii (true, false,
                                              false, true, false, true, true,
                                              false)), (String ((Ascii (true,
                                              true, true, true, false, true,
                                              true, false)), (String ((Ascii
                                              (false, true, true, true,
                                              false, true, true, false)),
                                              (String ((Ascii (false, false,
                                              true, false, true, false, true,
                                              false)), (String ((Ascii (true,
                                              false, false, true, true, true,
                                              true, false)), (String ((Ascii
                                              (false, false, false, false,
                                              true, true, true, false)),
                                              (String ((Ascii (true, false,
                                              true, false, false, true, true,
                                              false)),
                                              EmptyString))))))))))))))))))))))))))))))))))))
                                              ty)
                                       then fold_left (fun pat t ->
                                              let (acc, s0) = pat in
                                              let (x, s1) = irt e f t s0 in
                                              ((oset_extend acc x), s1))
                                              (tlist (String ((Ascii (false,
                                                false, true, false, true,
                                                true, true, false)), (String
                                                ((Ascii (true, false, false,
                                                true, true, true, true,
                                                false)), (String ((Ascii
                                                (false, false, false, false,
                                                true, true, true, false)),
                                                (String ((Ascii (true, false,
                                                true, false, false, true,
                                                true, false)), (String
                                                ((Ascii (true, true, false,
                                                false, true, true, true,
                                                false)),
                                                EmptyString)))))))))) ty)
                                              ([], s)
                                       else if is_ty (String ((Ascii (false,
                                                 false, true, false, true,
                                                 false, true, false)),
                                                 (String ((Ascii (true, true,
                                                 false, false, true, true,
                                                 true, false)), (String
                                                 ((Ascii (true, false, false,
                                                 true, false, false, true,
                                                 false)), (String ((Ascii
                                                 (false, true, true, true,
                                                 false, true, true, false)),
                                                 (String ((Ascii (false,
                                                 false, true, false, false,
                                                 true, true, false)), (String
                                                 ((Ascii (true, false, true,
                                                 false, false, true, true,
                                                 false)), (String ((Ascii
                                                 (false, false, false, true,
                                                 true, true, true, false)),
                                                 (String ((Ascii (true,
                                                 false, true, false, false,
                                                 true, true, false)), (String
                                                 ((Ascii (false, false, true,
                                                 false, false, true, true,
                                                 false)), (String ((Ascii
                                                 (true, false, false, false,
                                                 false, false, true, false)),
                                                 (String ((Ascii (true, true,
                                                 false, false, false, true,
                                                 true, false)), (String
                                                 ((Ascii (true, true, false,
                                                 false, false, true, true,
                                                 false)), (String ((Ascii
                                                 (true, false, true, false,
                                                 false, true, true, false)),
                                                 (String ((Ascii (true, true,
                                                 false, false, true, true,
                                                 true, false)), (String
                                                 ((Ascii (true, true, false,
                                                 false, true, true, true,
                                                 false)), (String ((Ascii
                                                 (false, false, true, false,
                                                 true, false, true, false)),
                                                 (String ((Ascii (true,
                                                 false, false, true, true,
                                                 true, true, false)), (String
                                                 ((Ascii (false, false,
                                                 false, false, true, true,
                                                 true, false)), (String
                                                 ((Ascii (true, false, true,
                                                 false, false, true, true,
                                                 false)),
                                                 EmptyString))))))))))))))))))))))))))))))))))))))
                                                 ty
                                            then let (r, s0) =
                                                   ria e f
                                                     (tf (String ((Ascii
                                                       (true, true, true,
                                                       true, false, true,
                                                       true, false)), (String
                                                       ((Ascii (false, true,
                                                       false, false, false,
                                                       true, true, false)),
                                                       (String ((Ascii
                                                       (false, true, false,
                                                       true, false, true,
                                                       true, false)), (String
                                                       ((Ascii (true, false,
                                                       true, false, false,
                                                       true, true, false)),
                                                       (String ((Ascii (true,
                                                       true, false, false,
                                                       false, true, true,
                                                       false)), (String
                                                       ((Ascii (false, false,
                                                       true, false, true,
                                                       true, true, false)),
                                                       (String ((Ascii
                                                       (false, false, true,
                                                       false, true, false,
                                                       true, false)), (String
                                                       ((Ascii (true, false,
                                                       false, true, true,
                                                       true, true, false)),
                                                       (String ((Ascii
                                                       (false, false, false,
                                                       false, true, true,
                                                       true, false)), (String
                                                       ((Ascii (true, false,
                                                       true, false, false,
                                                       true, true, false)),
                                                       EmptyString))))))))))))))))))))
                                                       ty)
                                                     (tf (String ((Ascii
                                                       (true, false, false,
                                                       true, false, true,
                                                       true, false)), (String
                                                       ((Ascii (false, true,
                                                       true, true, false,
                                                       true, true, false)),
                                                       (String ((Ascii
                                                       (false, false, true,
                                                       false, false, true,
                                                       true, false)), (String
                                                       ((Ascii (true, false,
                                                       true, false, false,
                                                       true, true, false)),
                                                       (String ((Ascii
                                                       (false, false, false,
                                                       true, true, true,
                                                       true, false)), (String
                                                       ((Ascii (false, false,
                                                       true, false, true,
                                                       false, true, false)),
                                                       (String ((Ascii (true,
                                                       false, false, true,
                                                       true, true, true,
                                                       false)), (String
                                                       ((Ascii (false, false,
                                                       false, false, true,
                                                       true, true, false)),
                                                       (String ((Ascii (true,
                                                       false, true, false,
                                                       false, true, true,
                                                       false)),
                                                       EmptyString))))))))))))))))))
                                                       ty) s
                                                 in
                                                 (match r with
                                                  | Some t -> irt e f t s0
                                                  | None -> ([], s0))
                                            else ((one (String ((Ascii (true,
                                                    true, true, true, false,
                                                    false, true, false)),
                                                    (String ((Ascii (false,
                                                    true, false, false,
                                                    false, true, true,
                                                    false)), (String ((Ascii
                                                    (false, true, false,
                                                    true, false, true, true,
                                                    false)), (String ((Ascii
                                                    (true, false, true,
                                                    false, false, true, true,
                                                    false)), (String ((Ascii
                                                    (true, true, false,
                                                    false, false, true, true,
                                                    false)), (String ((Ascii
                                                    (false, false, true,
                                                    false, true, true, true,
                                                    false)),
                                                    EmptyString))))))))))))),
                                                   s)

(** val type_fuel : nat **)

let type_fuel =
  S (S (S (S (S (S (S (S (S (S (S (S (S (S (S (S (S (S (S (S (S (S (S (S (S
    (S (S (S (S (S (S (S (S (S (S (S (S (S (S (S (S (S (S (S (S (S (S (S (S
    (S (S (S (S (S (S (S (S (S (S (S (S (S (S (S (S (S (S (S (S (S (S (S (S
    (S (S (S (S (S (S (S (S (S (S (S (S (S (S (S (S (S (S (S (S (S (S (S (S
    (S (S (S (S (S (S (S (S (S (S (S (S (S (S (S (S (S (S (S (S (S (S (S (S
    (S (S (S (S (S (S (S (S (S (S (S (S (S (S (S (S (S (S (S (S (S (S (S (S
    (S (S (S (S (S (S (S (S (S (S (S (S (S (S (S (S (S (S (S (S (S (S (S (S
    (S (S (S (S (S (S (S (S (S (S (S (S (S (S (S (S (S (S (S (S (S (S (S (S
    (S (S (S (S (S (S (S
    O)))))))))))))))))))))))))))))))))))))))))))))))))))))))))))))))))))))))))))))))))))))))))))))))))))))))))))))))))))))))))))))))))))))))))))))))))))))))))))))))))))))))))))))))))))))))))))))))))))))))

(** val extract_prop_name : node -> bool -> st -> node * st **)

let extract_prop_name key computed s =
  match key with
  | Ident (sy, _, _) -> ((IdName sy), s)
  | Str (_, _) -> (key, s)
  | Num (_, _) -> (key, s)
  | _ ->
    if is_ty (String ((Ascii (false, true, false, false, false, false, true,
         false)), (String ((Ascii (true, false, false, true, false, true,
         true, false)), (String ((Ascii (true, true, true, false, false,
         true, true, false)), (String ((Ascii (true, false, false, true,
         false, false, true, false)), (String ((Ascii (false, true, true,
         true, false, true, true, false)), (String ((Ascii (false, false,
         true, false, true, true, true, false)), (String ((Ascii (false,
         false, true, true, false, false, true, false)), (String ((Ascii
         (true, false, false, true, false, true, true, false)), (String
         ((Ascii (false, false, true, false, true, true, true, false)),
         (String ((Ascii (true, false, true, false, false, true, true,
         false)), (String ((Ascii (false, true, false, false, true, true,
         true, false)), (String ((Ascii (true, false, false, false, false,
         true, true, false)), (String ((Ascii (false, false, true, true,
         false, true, true, false)), EmptyString)))))))))))))))))))))))))) key
    then (key, s)
    else if computed
         then ((Computed key), s)
         else ((IdName []),
                (diag
                  (s_ (String ((Ascii (true, false, true, false, true, false,
                    true, false)), (String ((Ascii (false, true, true, true,
                    false, true, true, false)), (String ((Ascii (true, true,
                    false, false, true, true, true, false)), (String ((Ascii
                    (true, false, true, false, true, true, true, false)),
                    (String ((Ascii (false, false, false, false, true, true,
                    true, false)), (String ((Ascii (false, false, false,
                    false, true, true, true, false)), (String ((Ascii (true,
                    true, true, true, false, true, true, false)), (String
                    ((Ascii (false, true, false, false, true, true, true,
                    false)), (String ((Ascii (false, false, true, false,
                    true, true, true, false)), (String ((Ascii (true, false,
                    true, false, false, true, true, false)), (String ((Ascii
                    (false, false, true, false, false, true, true, false)),
                    (String ((Ascii (false, false, false, false, false, true,
                    false, false)), (String ((Ascii (false, false, false,
                    false, true, true, true, false)), (String ((Ascii (false,
                    true, false, false, true, true, true, false)), (String
                    ((Ascii (true, true, true, true, false, true, true,
                    false)), (String ((Ascii (false, false, false, false,
                    true, true, true, false)), (String ((Ascii (false, false,
                    false, false, false, true, false, false)), (String
                    ((Ascii (true, true, false, true, false, true, true,
                    false)), (String ((Ascii (true, false, true, false,
                    false, true, true, false)), (String ((Ascii (true, false,
                    false, true, true, true, true, false)), (String ((Ascii
                    (false, true, true, true, false, true, false, false)),
                    EmptyString))))))))))))))))))))))))))))))))))))))))))) s))

(** val pname_eqb : node -> node -> bool **)

let pname_eqb a b =
  match a with
  | Field (_, _) ->
    (match b with
     | IdName _ -> false
     | Str (_, _) -> false
     | Num (_, _) -> false
     | _ -> jv_eqb (enc a) (enc b))
  | Ident (_, _, _) ->
    (match b with
     | IdName _ -> false
     | Str (_, _) -> false
     | Num (_, _) -> false
     | _ -> jv_eqb (enc a) (enc b))
  | BIdent (_, _, _, _) ->
    (match b with
     | IdName _ -> false
     | Str (_, _) -> false
     | Num (_, _) -> false
     | _ -> jv_eqb (enc a) (enc b))
  | IdName x -> (match b with
                 | IdName y -> str_eqb x y
                 | _ -> false)
  | Str (x, _) -> (match b with
                   | Str (y, _) -> str_eqb x y
                   | _ -> false)
  | Num (x, _) -> (match b with
                   | Num (y, _) -> str_eqb x y
                   | _ -> false)
  | JText (_, _) ->
    (match b with
     | IdName _ -> false
     | Str (_, _) -> false
     | Num (_, _) -> false
     | _ -> jv_eqb (enc a) (enc b))
  | _ ->
    (match b with
     | IdName _ -> false
     | Str (_, _) -> false
     | Num (_, _) -> false
     | _ -> jv_eqb (enc a) (enc b))

type prop_ir = { ir_key : node; ir_types : str option list; ir_required : bool }

(** val ir_update :
    node -> (prop_ir -> prop_ir) -> prop_ir list -> prop_ir list option **)

let rec ir_update k f = function
| [] -> None
| x :: r ->
  if pname_eqb k x.ir_key
  then Some ((f x) :: r)
  else (match ir_update k f r with
        | Some r' -> Some (x :: r')
        | None -> None)

(** val infer_ann : env -> node -> st -> str option list * st **)

let infer_ann e tann s =
  match ann_type tann with
  | Some t -> irt e type_fuel t s
  | None -> ((None :: []), s)

(** val ir_step : env -> (prop_ir list * st) -> relem -> prop_ir list * st **)

let ir_step e acc x =
  let (irs, s) = acc in
  (match x with
   | RProp (key, computed, optional, tann) ->
     let (k, s0) = extract_prop_name key computed s in
     let (types, s1) = infer_ann e tann s0 in
     (match ir_update k (fun ir -> { ir_key = ir.ir_key; ir_types =
              (oset_extend ir.ir_types types); ir_required =
              (if optional then false else ir.ir_required) }) irs with
      | Some irs' -> (irs', s1)
      | None ->
        ((app irs ({ ir_key = k; ir_types = (oset_extend [] types);
           ir_required = (negb optional) } :: [])), s1))
   | RGetter (key, computed, tann) ->
     let (k, s0) = extract_prop_name key computed s in
     let (types, s1) = infer_ann e tann s0 in
     (match ir_update k (fun ir -> { ir_key = ir.ir_key; ir_types =
              (oset_extend ir.ir_types types); ir_required =
              ir.ir_required }) irs with
      | Some irs' -> (irs', s1)
      | None ->
        ((app irs ({ ir_key = k; ir_types = (oset_extend [] types);
           ir_required = true } :: [])), s1))
   | RMethod (key, computed, optional) ->
     let (k, s0) = extract_prop_name key computed s in
     (match ir_update k (fun ir -> { ir_key = ir.ir_key; ir_types =
              (oset_insert (Some
                (s_ (String ((Ascii (false, true, true, false, false, false,
                  true, false)), (String ((Ascii (true, false, true, false,
                  true, true, true, false)), (String ((Ascii (false, true,
                  true, true, false, true, true, false)), (String ((Ascii
                  (true, true, false, false, false, true, true, false)),
                  (String ((Ascii (false, false, true, false, true, true,
                  true, false)), (String ((Ascii (true, false, false, true,
                  false, true, true, false)), (String ((Ascii (true, true,
                  true, true, false, true, true, false)), (String ((Ascii
                  (false, true, true, true, false, true, true, false)),
                  EmptyString)))))))))))))))))) ir.ir_types); ir_required =
              (if optional then false else ir.ir_required) }) irs with
      | Some irs' -> (irs', s0)
      | None ->
        ((app irs ({ ir_key = k; ir_types = ((Some
           (s_ (String ((Ascii (false, true, true, false, false, false, true,
             false)), (String ((Ascii (true, false, true, false, true, true,
             true, false)), (String ((Ascii (false, true, true, true, false,
             true, true, false)), (String ((Ascii (true, true, false, false,
             false, true, true, false)), (String ((Ascii (false, false, true,
             false, true, true, true, false)), (String ((Ascii (true, false,
             false, true, false, true, true, false)), (String ((Ascii (true,
             true, true, true, false, true, true, false)), (String ((Ascii
             (false, true, true, true, false, true, true, false)),
             EmptyString)))))))))))))))))) :: []); ir_required =
           (negb optional) } :: [])), s0))
   | RCall _ -> (irs, s))

(** val type_expr : str option -> node **)

let type_expr = function
| Some n -> Ident (n, N0, false)
| None -> Null

(** val num_to_string : str -> str **)

let num_to_string v =
  match split_on (Npos (Coq_xO (Coq_xI (Coq_xI (Coq_xI (Coq_xO Coq_xH)))))) v with
  | [] -> v
  | i :: l ->
    (match l with
     | [] -> v
     | s :: l0 ->
       (match s with
        | [] -> v
        | n :: l1 ->
          (match n with
           | N0 -> v
           | Npos p ->
             (match p with
              | Coq_xO p0 ->
                (match p0 with
                 | Coq_xO p1 ->
                   (match p1 with
                    | Coq_xO p2 ->
                      (match p2 with
                       | Coq_xO p3 ->
                         (match p3 with
                          | Coq_xI p4 ->
                            (match p4 with
                             | Coq_xH ->
                               (match l1 with
                                | [] -> (match l0 with
                                         | [] -> i
                                         | _ :: _ -> v)
                                | _ :: _ -> v)
                             | _ -> v)
                          | _ -> v)
                       | _ -> v)
                    | _ -> v)
                 | _ -> v)
              | _ -> v))))

(** val default_matches : node -> node -> bool **)

let default_matches name key =
  (||) (pname_eqb name key)
    (match name with
     | IdName a -> (match key with
                    | Str (b, _) -> str_eqb a b
                    | _ -> false)
     | Str (b, _) ->
       (match key with
        | IdName b0 -> str_eqb b b0
        | Num (n, _) -> str_eqb (num_to_string n) b
        | _ -> false)
     | Num (n, _) ->
       (match key with
        | Str (b, _) -> str_eqb (num_to_string n) b
        | _ -> false)
     | _ -> false)

(** val find_default : (node * node) list -> node -> node option **)

let rec find_default defaults key =
  match defaults with
  | [] -> None
  | p :: r ->
    let (name, d) = p in
    if default_matches name key then Some d else find_default r key

(** val unwrap_function_default : str option list -> node -> node **)

let unwrap_function_default types d =
  match types with
  | [] -> d
  | o :: l ->
    (match o with
     | Some t ->
       (match l with
        | [] ->
          if sq (String ((Ascii (false, true, true, false, false, false,
               true, false)), (String ((Ascii (true, false, true, false,
               true, true, true, false)), (String ((Ascii (false, true, true,
               true, false, true, true, false)), (String ((Ascii (true, true,
               false, false, false, true, true, false)), (String ((Ascii
               (false, false, true, false, true, true, true, false)), (String
               ((Ascii (true, false, false, true, false, true, true, false)),
               (String ((Ascii (true, true, true, true, false, true, true,
               false)), (String ((Ascii (false, true, true, true, false,
               true, true, false)), EmptyString)))))))))))))))) t
          then (match d with
                | Arrow (_, params, b, _, _, _, _) ->
                  (match params with
                   | [] -> (match b with
                            | Block (_, _) -> d
                            | _ -> b)
                   | _ :: _ -> d)
                | _ -> d)
          else d
        | _ :: _ -> d)
     | None -> d)

(** val build_props_type :
    env -> node -> (node * node) list -> st -> node * st **)

let build_props_type e ty defaults s =
  let (elems, s0) = rte e type_fuel ty s in
  let (irs, s1) = fold_left (ir_step e) elems ([], s0) in
  ((Obj
  (map (fun ir -> KV (ir.ir_key, (Obj
    (app ((KV ((IdName
      (s_ (String ((Ascii (false, false, true, false, true, true, true,
        false)), (String ((Ascii (true, false, false, true, true, true, true,
        false)), (String ((Ascii (false, false, false, false, true, true,
        true, false)), (String ((Ascii (true, false, true, false, false,
        true, true, false)), EmptyString)))))))))),
      (match ir.ir_types with
       | [] -> Null
       | t :: l ->
         (match l with
          | [] -> type_expr t
          | o :: l0 ->
            Arr
              (map (fun t0 -> Elem (false, (type_expr t0))) (t :: (o :: l0))))))) :: ((KV
      ((IdName
      (s_ (String ((Ascii (false, true, false, false, true, true, true,
        false)), (String ((Ascii (true, false, true, false, false, true,
        true, false)), (String ((Ascii (true, false, false, false, true,
        true, true, false)), (String ((Ascii (true, false, true, false, true,
        true, true, false)), (String ((Ascii (true, false, false, true,
        false, true, true, false)), (String ((Ascii (false, true, false,
        false, true, true, true, false)), (String ((Ascii (true, false, true,
        false, false, true, true, false)), (String ((Ascii (false, false,
        true, false, false, true, true, false)), EmptyString)))))))))))))))))),
      (Bool ir.ir_required))) :: []))
      (match find_default defaults ir.ir_key with
       | Some d ->
         (KV ((IdName
           (s_ (String ((Ascii (false, false, true, false, false, true, true,
             false)), (String ((Ascii (true, false, true, false, false, true,
             true, false)), (String ((Ascii (false, true, true, false, false,
             true, true, false)), (String ((Ascii (true, false, false, false,
             false, true, true, false)), (String ((Ascii (true, false, true,
             false, true, true, true, false)), (String ((Ascii (false, false,
             true, true, false, true, true, false)), (String ((Ascii (false,
             false, true, false, true, true, true, false)),
             EmptyString)))))))))))))))),
           (unwrap_function_default ir.ir_types d))) :: []
       | None -> []))))) irs)), s1)

(** val pat_type_ann : nat -> node -> node option **)

let rec pat_type_ann fuel p =
  match fuel with
  | O -> None
  | S f ->
    (match p with
     | BIdent (_, _, _, t) -> if is_nnull t then None else Some t
     | _ ->
       if (||)
            (is_ty (String ((Ascii (true, true, true, true, false, false,
              true, false)), (String ((Ascii (false, true, false, false,
              false, true, true, false)), (String ((Ascii (false, true,
              false, true, false, true, true, false)), (String ((Ascii (true,
              false, true, false, false, true, true, false)), (String ((Ascii
              (true, true, false, false, false, true, true, false)), (String
              ((Ascii (false, false, true, false, true, true, true, false)),
              (String ((Ascii (false, false, false, false, true, false, true,
              false)), (String ((Ascii (true, false, false, false, false,
              true, true, false)), (String ((Ascii (false, false, true,
              false, true, true, true, false)), (String ((Ascii (false,
              false, true, false, true, true, true, false)), (String ((Ascii
              (true, false, true, false, false, true, true, false)), (String
              ((Ascii (false, true, false, false, true, true, true, false)),
              (String ((Ascii (false, true, true, true, false, true, true,
              false)), EmptyString)))))))))))))))))))))))))) p)
            (is_ty (String ((Ascii (true, false, false, false, false, false,
              true, false)), (String ((Ascii (false, true, false, false,
              true, true, true, false)), (String ((Ascii (false, true, false,
              false, true, true, true, false)), (String ((Ascii (true, false,
              false, false, false, true, true, false)), (String ((Ascii
              (true, false, false, true, true, true, true, false)), (String
              ((Ascii (false, false, false, false, true, false, true,
              false)), (String ((Ascii (true, false, false, false, false,
              true, true, false)), (String ((Ascii (false, false, true,
              false, true, true, true, false)), (String ((Ascii (false,
              false, true, false, true, true, true, false)), (String ((Ascii
              (true, false, true, false, false, true, true, false)), (String
              ((Ascii (false, true, false, false, true, true, true, false)),
              (String ((Ascii (false, true, true, true, false, true, true,
              false)), EmptyString)))))))))))))))))))))))) p)
       then let t =
              tf (String ((Ascii (false, false, true, false, true, true,
                true, false)), (String ((Ascii (true, false, false, true,
                true, true, true, false)), (String ((Ascii (false, false,
                false, false, true, true, true, false)), (String ((Ascii
                (true, false, true, false, false, true, true, false)),
                (String ((Ascii (true, false, false, false, false, false,
                true, false)), (String ((Ascii (false, true, true, true,
                false, true, true, false)), (String ((Ascii (false, true,
                true, true, false, true, true, false)), (String ((Ascii
                (true, true, true, true, false, true, true, false)), (String
                ((Ascii (false, false, true, false, true, true, true,
                false)), (String ((Ascii (true, false, false, false, false,
                true, true, false)), (String ((Ascii (false, false, true,
                false, true, true, true, false)), (String ((Ascii (true,
                false, false, true, false, true, true, false)), (String
                ((Ascii (true, true, true, true, false, true, true, false)),
                (String ((Ascii (false, true, true, true, false, true, true,
                false)), EmptyString)))))))))))))))))))))))))))) p
            in
            if is_nnull t then None else Some t
       else if is_ty (String ((Ascii (true, false, false, false, false,
                 false, true, false)), (String ((Ascii (true, true, false,
                 false, true, true, true, false)), (String ((Ascii (true,
                 true, false, false, true, true, true, false)), (String
                 ((Ascii (true, false, false, true, false, true, true,
                 false)), (String ((Ascii (true, true, true, false, false,
                 true, true, false)), (String ((Ascii (false, true, true,
                 true, false, true, true, false)), (String ((Ascii (true,
                 false, true, true, false, true, true, false)), (String
                 ((Ascii (true, false, true, false, false, true, true,
                 false)), (String ((Ascii (false, true, true, true, false,
                 true, true, false)), (String ((Ascii (false, false, true,
                 false, true, true, true, false)), (String ((Ascii (false,
                 false, false, false, true, false, true, false)), (String
                 ((Ascii (true, false, false, false, false, true, true,
                 false)), (String ((Ascii (false, false, true, false, true,
                 true, true, false)), (String ((Ascii (false, false, true,
                 false, true, true, true, false)), (String ((Ascii (true,
                 false, true, false, false, true, true, false)), (String
                 ((Ascii (false, true, false, false, true, true, true,
                 false)), (String ((Ascii (false, true, true, true, false,
                 true, true, false)),
                 EmptyString)))))))))))))))))))))))))))))))))) p
            then pat_type_ann f
                   (tf (String ((Ascii (false, false, true, true, false,
                     true, true, false)), (String ((Ascii (true, false, true,
                     false, false, true, true, false)), (String ((Ascii
                     (false, true, true, false, false, true, true, false)),
                     (String ((Ascii (false, false, true, false, true, true,
                     true, false)), EmptyString)))))))) p)
            else None)

(** val first_param : node -> node option **)

let first_param setup = match setup with
| NObj _ ->
  if is_ty (String ((Ascii (false, true, true, false, false, false, true,
       false)), (String ((Ascii (true, false, true, false, true, true, true,
       false)), (String ((Ascii (false, true, true, true, false, true, true,
       false)), (String ((Ascii (true, true, false, false, false, true, true,
       false)), (String ((Ascii (false, false, true, false, true, true, true,
       false)), (String ((Ascii (true, false, false, true, false, true, true,
       false)), (String ((Ascii (true, true, true, true, false, true, true,
       false)), (String ((Ascii (false, true, true, true, false, true, true,
       false)), (String ((Ascii (true, false, true, false, false, false,
       true, false)), (String ((Ascii (false, false, false, true, true, true,
       true, false)), (String ((Ascii (false, false, false, false, true,
       true, true, false)), (String ((Ascii (false, true, false, false, true,
       true, true, false)), (String ((Ascii (true, false, true, false, false,
       true, true, false)), (String ((Ascii (true, true, false, false, true,
       true, true, false)), (String ((Ascii (true, true, false, false, true,
       true, true, false)), (String ((Ascii (true, false, false, true, false,
       true, true, false)), (String ((Ascii (true, true, true, true, false,
       true, true, false)), (String ((Ascii (false, true, true, true, false,
       true, true, false)), EmptyString))))))))))))))))))))))))))))))))))))
       setup
  then (match tlist (String ((Ascii (false, false, false, false, true, true,
                true, false)), (String ((Ascii (true, false, false, false,
                false, true, true, false)), (String ((Ascii (false, true,
                false, false, true, true, true, false)), (String ((Ascii
                (true, false, false, false, false, true, true, false)),
                (String ((Ascii (true, false, true, true, false, true, true,
                false)), (String ((Ascii (true, true, false, false, true,
                true, true, false)), EmptyString)))))))))))) setup with
        | [] -> None
        | p :: _ ->
          Some
            (tf (String ((Ascii (false, false, false, false, true, true,
              true, false)), (String ((Ascii (true, false, false, false,
              false, true, true, false)), (String ((Ascii (false, false,
              true, false, true, true, true, false)), EmptyString)))))) p))
  else None
| Arrow (_, params, _, _, _, _, _) ->
  (match params with
   | [] -> None
   | p :: _ -> Some p)
| _ -> None

(** val nth_param : node -> nat -> node option **)

let nth_param setup i =
  match setup with
  | NObj _ ->
    if is_ty (String ((Ascii (false, true, true, false, false, false, true,
         false)), (String ((Ascii (true, false, true, false, true, true,
         true, false)), (String ((Ascii (false, true, true, true, false,
         true, true, false)), (String ((Ascii (true, true, false, false,
         false, true, true, false)), (String ((Ascii (false, false, true,
         false, true, true, true, false)), (String ((Ascii (true, false,
         false, true, false, true, true, false)), (String ((Ascii (true,
         true, true, true, false, true, true, false)), (String ((Ascii
         (false, true, true, true, false, true, true, false)), (String
         ((Ascii (true, false, true, false, false, false, true, false)),
         (String ((Ascii (false, false, false, true, true, true, true,
         false)), (String ((Ascii (false, false, false, false, true, true,
         true, false)), (String ((Ascii (false, true, false, false, true,
         true, true, false)), (String ((Ascii (true, false, true, false,
         false, true, true, false)), (String ((Ascii (true, true, false,
         false, true, true, true, false)), (String ((Ascii (true, true,
         false, false, true, true, true, false)), (String ((Ascii (true,
         false, false, true, false, true, true, false)), (String ((Ascii
         (true, true, true, true, false, true, true, false)), (String ((Ascii
         (false, true, true, true, false, true, true, false)),
         EmptyString)))))))))))))))))))))))))))))))))))) setup
    then (match nth_error
                  (tlist (String ((Ascii (false, false, false, false, true,
                    true, true, false)), (String ((Ascii (true, false, false,
                    false, false, true, true, false)), (String ((Ascii
                    (false, true, false, false, true, true, true, false)),
                    (String ((Ascii (true, false, false, false, false, true,
                    true, false)), (String ((Ascii (true, false, true, true,
                    false, true, true, false)), (String ((Ascii (true, true,
                    false, false, true, true, true, false)),
                    EmptyString)))))))))))) setup) i with
          | Some p ->
            Some
              (tf (String ((Ascii (false, false, false, false, true, true,
                true, false)), (String ((Ascii (true, false, false, false,
                false, true, true, false)), (String ((Ascii (false, false,
                true, false, true, true, true, false)), EmptyString)))))) p)
          | None -> None)
    else None
  | Arrow (_, ps, _, _, _, _, _) -> nth_error ps i
  | _ -> None

(** val lit_prop_name : node -> node option **)

let lit_prop_name k = match k with
| IdName _ -> Some k
| Str (_, _) -> Some k
| Num (_, _) -> Some k
| Computed e ->
  (match e with
   | Str (_, _) -> Some e
   | Num (_, _) -> Some e
   | _ ->
     if is_ty (String ((Ascii (false, true, false, false, false, false, true,
          false)), (String ((Ascii (true, false, false, true, false, true,
          true, false)), (String ((Ascii (true, true, true, false, false,
          true, true, false)), (String ((Ascii (true, false, false, true,
          false, false, true, false)), (String ((Ascii (false, true, true,
          true, false, true, true, false)), (String ((Ascii (false, false,
          true, false, true, true, true, false)), (String ((Ascii (false,
          false, true, true, false, false, true, false)), (String ((Ascii
          (true, false, false, true, false, true, true, false)), (String
          ((Ascii (false, false, true, false, true, true, true, false)),
          (String ((Ascii (true, false, true, false, false, true, true,
          false)), (String ((Ascii (false, true, false, false, true, true,
          true, false)), (String ((Ascii (true, false, false, false, false,
          true, true, false)), (String ((Ascii (false, false, true, true,
          false, true, true, false)), EmptyString)))))))))))))))))))))))))) e
     then Some e
     else None)
| _ ->
  if is_ty (String ((Ascii (false, true, false, false, false, false, true,
       false)), (String ((Ascii (true, false, false, true, false, true, true,
       false)), (String ((Ascii (true, true, true, false, false, true, true,
       false)), (String ((Ascii (true, false, false, true, false, false,
       true, false)), (String ((Ascii (false, true, true, true, false, true,
       true, false)), (String ((Ascii (false, false, true, false, true, true,
       true, false)), (String ((Ascii (false, false, true, true, false,
       false, true, false)), (String ((Ascii (true, false, false, true,
       false, true, true, false)), (String ((Ascii (false, false, true,
       false, true, true, true, false)), (String ((Ascii (true, false, true,
       false, false, true, true, false)), (String ((Ascii (false, true,
       false, false, true, true, true, false)), (String ((Ascii (true, false,
       false, false, false, true, true, false)), (String ((Ascii (false,
       false, true, true, false, true, true, false)),
       EmptyString)))))))))))))))))))))))))) k
  then Some k
  else None

(** val static_default : node -> (node * node) option **)

let static_default p = match p with
| NObj _ ->
  if is_ty (String ((Ascii (true, true, true, false, false, false, true,
       false)), (String ((Ascii (true, false, true, false, false, true, true,
       false)), (String ((Ascii (false, false, true, false, true, true, true,
       false)), (String ((Ascii (false, false, true, false, true, true, true,
       false)), (String ((Ascii (true, false, true, false, false, true, true,
       false)), (String ((Ascii (false, true, false, false, true, true, true,
       false)), (String ((Ascii (false, false, false, false, true, false,
       true, false)), (String ((Ascii (false, true, false, false, true, true,
       true, false)), (String ((Ascii (true, true, true, true, false, true,
       true, false)), (String ((Ascii (false, false, false, false, true,
       true, true, false)), (String ((Ascii (true, false, true, false, false,
       true, true, false)), (String ((Ascii (false, true, false, false, true,
       true, true, false)), (String ((Ascii (false, false, true, false, true,
       true, true, false)), (String ((Ascii (true, false, false, true, true,
       true, true, false)), EmptyString)))))))))))))))))))))))))))) p
  then let body =
         tf (String ((Ascii (false, true, false, false, false, true, true,
           false)), (String ((Ascii (true, true, true, true, false, true,
           true, false)), (String ((Ascii (false, false, true, false, false,
           true, true, false)), (String ((Ascii (true, false, false, true,
           true, true, true, false)), EmptyString)))))))) p
       in
       if is_nnull body
       then None
       else (match lit_prop_name
                     (tf (String ((Ascii (true, true, false, true, false,
                       true, true, false)), (String ((Ascii (true, false,
                       true, false, false, true, true, false)), (String
                       ((Ascii (true, false, false, true, true, true, true,
                       false)), EmptyString)))))) p) with
             | Some k -> Some (k, (mk_arrow [] body))
             | None -> None)
  else if is_ty (String ((Ascii (true, false, true, true, false, false, true,
            false)), (String ((Ascii (true, false, true, false, false, true,
            true, false)), (String ((Ascii (false, false, true, false, true,
            true, true, false)), (String ((Ascii (false, false, false, true,
            false, true, true, false)), (String ((Ascii (true, true, true,
            true, false, true, true, false)), (String ((Ascii (false, false,
            true, false, false, true, true, false)), (String ((Ascii (false,
            false, false, false, true, false, true, false)), (String ((Ascii
            (false, true, false, false, true, true, true, false)), (String
            ((Ascii (true, true, true, true, false, true, true, false)),
            (String ((Ascii (false, false, false, false, true, true, true,
            false)), (String ((Ascii (true, false, true, false, false, true,
            true, false)), (String ((Ascii (false, true, false, false, true,
            true, true, false)), (String ((Ascii (false, false, true, false,
            true, true, true, false)), (String ((Ascii (true, false, false,
            true, true, true, true, false)),
            EmptyString)))))))))))))))))))))))))))) p
       then (match lit_prop_name
                     (tf (String ((Ascii (true, true, false, true, false,
                       true, true, false)), (String ((Ascii (true, false,
                       true, false, false, true, true, false)), (String
                       ((Ascii (true, false, false, true, true, true, true,
                       false)), EmptyString)))))) p) with
             | Some k ->
               (match p with
                | NObj l ->
                  (match l with
                   | [] -> None
                   | _ :: l0 ->
                     (match l0 with
                      | [] -> None
                      | _ :: rest ->
                        Some (k,
                          (gobj (String ((Ascii (false, true, true, false,
                            false, false, true, false)), (String ((Ascii
                            (true, false, true, false, true, true, true,
                            false)), (String ((Ascii (false, true, true,
                            true, false, true, true, false)), (String ((Ascii
                            (true, true, false, false, false, true, true,
                            false)), (String ((Ascii (false, false, true,
                            false, true, true, true, false)), (String ((Ascii
                            (true, false, false, true, false, true, true,
                            false)), (String ((Ascii (true, true, true, true,
                            false, true, true, false)), (String ((Ascii
                            (false, true, true, true, false, true, true,
                            false)), (String ((Ascii (true, false, true,
                            false, false, false, true, false)), (String
                            ((Ascii (false, false, false, true, true, true,
                            true, false)), (String ((Ascii (false, false,
                            false, false, true, true, true, false)), (String
                            ((Ascii (false, true, false, false, true, true,
                            true, false)), (String ((Ascii (true, false,
                            true, false, false, true, true, false)), (String
                            ((Ascii (true, true, false, false, true, true,
                            true, false)), (String ((Ascii (true, true,
                            false, false, true, true, true, false)), (String
                            ((Ascii (true, false, false, true, false, true,
                            true, false)), (String ((Ascii (true, true, true,
                            true, false, true, true, false)), (String ((Ascii
                            (false, true, true, true, false, true, true,
                            false)),
                            EmptyString))))))))))))))))))))))))))))))))))))
                            ((fld (String ((Ascii (true, false, false, true,
                               false, true, true, false)), (String ((Ascii
                               (false, false, true, false, false, true, true,
                               false)), (String ((Ascii (true, false, true,
                               false, false, true, true, false)), (String
                               ((Ascii (false, true, true, true, false, true,
                               true, false)), (String ((Ascii (false, false,
                               true, false, true, true, true, false)),
                               (String ((Ascii (true, false, false, true,
                               false, true, true, false)), (String ((Ascii
                               (false, true, true, false, false, true, true,
                               false)), (String ((Ascii (true, false, false,
                               true, false, true, true, false)), (String
                               ((Ascii (true, false, true, false, false,
                               true, true, false)), (String ((Ascii (false,
                               true, false, false, true, true, true, false)),
                               EmptyString)))))))))))))))))))) nnull) :: rest)))))
                | _ -> None)
             | None -> None)
       else None
| Ident (sy, c, o) -> Some ((IdName sy), (mk_arrow [] (Ident (sy, c, o))))
| KV (key, value) ->
  (match lit_prop_name key with
   | Some k -> Some (k, (if is_lit value then value else mk_arrow [] value))
   | None -> None)
| _ -> None

(** val static_defaults : node list -> (node * node) list option **)

let rec static_defaults = function
| [] -> Some []
| p :: r ->
  (match static_default p with
   | Some d ->
     (match static_defaults r with
      | Some ds -> Some (d :: ds)
      | None -> None)
   | None -> None)

(** val extract_props_type : env -> node -> st -> node option * st **)

let extract_props_type e arg0 s =
  match arg0 with
  | Elem (spread, setup) ->
    if spread
    then (None, s)
    else (match first_param setup with
          | Some param ->
            let defaults =
              if is_ty (String ((Ascii (true, false, false, false, false,
                   false, true, false)), (String ((Ascii (true, true, false,
                   false, true, true, true, false)), (String ((Ascii (true,
                   true, false, false, true, true, true, false)), (String
                   ((Ascii (true, false, false, true, false, true, true,
                   false)), (String ((Ascii (true, true, true, false, false,
                   true, true, false)), (String ((Ascii (false, true, true,
                   true, false, true, true, false)), (String ((Ascii (true,
                   false, true, true, false, true, true, false)), (String
                   ((Ascii (true, false, true, false, false, true, true,
                   false)), (String ((Ascii (false, true, true, true, false,
                   true, true, false)), (String ((Ascii (false, false, true,
                   false, true, true, true, false)), (String ((Ascii (false,
                   false, false, false, true, false, true, false)), (String
                   ((Ascii (true, false, false, false, false, true, true,
                   false)), (String ((Ascii (false, false, true, false, true,
                   true, true, false)), (String ((Ascii (false, false, true,
                   false, true, true, true, false)), (String ((Ascii (true,
                   false, true, false, false, true, true, false)), (String
                   ((Ascii (false, true, false, false, true, true, true,
                   false)), (String ((Ascii (false, true, true, true, false,
                   true, true, false)),
                   EmptyString)))))))))))))))))))))))))))))))))) param
              then Some
                     (tf (String ((Ascii (false, true, false, false, true,
                       true, true, false)), (String ((Ascii (true, false,
                       false, true, false, true, true, false)), (String
                       ((Ascii (true, true, true, false, false, true, true,
                       false)), (String ((Ascii (false, false, false, true,
                       false, true, true, false)), (String ((Ascii (false,
                       false, true, false, true, true, true, false)),
                       EmptyString)))))))))) param)
              else None
            in
            (match pat_type_ann (S (S (S (S (S (S (S (S (S (S (S (S (S (S (S
                     (S (S (S (S (S (S (S (S (S (S (S (S (S (S (S (S (S (S (S
                     (S (S (S (S (S (S (S (S (S (S (S (S (S (S (S (S
                     O)))))))))))))))))))))))))))))))))))))))))))))))))) param with
             | Some tann ->
               let ty =
                 tf (String ((Ascii (false, false, true, false, true, true,
                   true, false)), (String ((Ascii (true, false, false, true,
                   true, true, true, false)), (String ((Ascii (false, false,
                   false, false, true, true, true, false)), (String ((Ascii
                   (true, false, true, false, false, true, true, false)),
                   (String ((Ascii (true, false, false, false, false, false,
                   true, false)), (String ((Ascii (false, true, true, true,
                   false, true, true, false)), (String ((Ascii (false, true,
                   true, true, false, true, true, false)), (String ((Ascii
                   (true, true, true, true, false, true, true, false)),
                   (String ((Ascii (false, false, true, false, true, true,
                   true, false)), (String ((Ascii (true, false, false, false,
                   false, true, true, false)), (String ((Ascii (false, false,
                   true, false, true, true, true, false)), (String ((Ascii
                   (true, false, false, true, false, true, true, false)),
                   (String ((Ascii (true, true, true, true, false, true,
                   true, false)), (String ((Ascii (false, true, true, true,
                   false, true, true, false)),
                   EmptyString)))))))))))))))))))))))))))) tann
               in
               (match defaults with
                | Some d ->
                  let static =
                    match d with
                    | NScalar _ -> None
                    | NArr _ -> None
                    | NObj _ -> None
                    | Field (_, _) -> None
                    | Ident (_, _, _) -> None
                    | BIdent (_, _, _, _) -> None
                    | IdName _ -> None
                    | Str (_, _) -> None
                    | Num (_, _) -> None
                    | Bool _ -> None
                    | Null -> None
                    | Arr _ -> None
                    | Elem (_, _) -> None
                    | Hole -> None
                    | Obj ps -> static_defaults ps
                    | _ -> None
                  in
                  (match static with
                   | Some ds ->
                     let (o, s0) = build_props_type e ty ds s in
                     ((Some o), s0)
                   | None ->
                     let (h, s0) =
                       import_from_vue (String ((Ascii (true, false, true,
                         true, false, true, true, false)), (String ((Ascii
                         (true, false, true, false, false, true, true,
                         false)), (String ((Ascii (false, true, false, false,
                         true, true, true, false)), (String ((Ascii (true,
                         true, true, false, false, true, true, false)),
                         (String ((Ascii (true, false, true, false, false,
                         true, true, false)), (String ((Ascii (false, false,
                         true, false, false, false, true, false)), (String
                         ((Ascii (true, false, true, false, false, true,
                         true, false)), (String ((Ascii (false, true, true,
                         false, false, true, true, false)), (String ((Ascii
                         (true, false, false, false, false, true, true,
                         false)), (String ((Ascii (true, false, true, false,
                         true, true, true, false)), (String ((Ascii (false,
                         false, true, true, false, true, true, false)),
                         (String ((Ascii (false, false, true, false, true,
                         true, true, false)), (String ((Ascii (true, true,
                         false, false, true, true, true, false)),
                         EmptyString)))))))))))))))))))))))))) s
                     in
                     let (o, s1) = build_props_type e ty [] s0 in
                     ((Some (Call (false, N0, h, ((Elem (false, o)) :: ((Elem
                     (false, d)) :: [])), nnull))), s1))
                | None ->
                  let (o, s0) = build_props_type e ty [] s in ((Some o), s0))
             | None -> (None, s))
          | None -> (None, s))
  | _ -> (None, s)

(** val param_type_ann : node -> node option **)

let param_type_ann p = match p with
| BIdent (_, _, _, t) -> if is_nnull t then None else Some t
| _ ->
  if (||)
       ((||)
         (is_ty (String ((Ascii (true, false, false, false, false, false,
           true, false)), (String ((Ascii (false, true, false, false, true,
           true, true, false)), (String ((Ascii (false, true, false, false,
           true, true, true, false)), (String ((Ascii (true, false, false,
           false, false, true, true, false)), (String ((Ascii (true, false,
           false, true, true, true, true, false)), (String ((Ascii (false,
           false, false, false, true, false, true, false)), (String ((Ascii
           (true, false, false, false, false, true, true, false)), (String
           ((Ascii (false, false, true, false, true, true, true, false)),
           (String ((Ascii (false, false, true, false, true, true, true,
           false)), (String ((Ascii (true, false, true, false, false, true,
           true, false)), (String ((Ascii (false, true, false, false, true,
           true, true, false)), (String ((Ascii (false, true, true, true,
           false, true, true, false)), EmptyString)))))))))))))))))))))))) p)
         (is_ty (String ((Ascii (true, true, true, true, false, false, true,
           false)), (String ((Ascii (false, true, false, false, false, true,
           true, false)), (String ((Ascii (false, true, false, true, false,
           true, true, false)), (String ((Ascii (true, false, true, false,
           false, true, true, false)), (String ((Ascii (true, true, false,
           false, false, true, true, false)), (String ((Ascii (false, false,
           true, false, true, true, true, false)), (String ((Ascii (false,
           false, false, false, true, false, true, false)), (String ((Ascii
           (true, false, false, false, false, true, true, false)), (String
           ((Ascii (false, false, true, false, true, true, true, false)),
           (String ((Ascii (false, false, true, false, true, true, true,
           false)), (String ((Ascii (true, false, true, false, false, true,
           true, false)), (String ((Ascii (false, true, false, false, true,
           true, true, false)), (String ((Ascii (false, true, true, true,
           false, true, true, false)), EmptyString))))))))))))))))))))))))))
           p))
       (is_ty (String ((Ascii (false, true, false, false, true, false, true,
         false)), (String ((Ascii (true, false, true, false, false, true,
         true, false)), (String ((Ascii (true, true, false, false, true,
         true, true, false)), (String ((Ascii (false, false, true, false,
         true, true, true, false)), (String ((Ascii (true, false, true,
         false, false, false, true, false)), (String ((Ascii (false, false,
         true, true, false, true, true, false)), (String ((Ascii (true,
         false, true, false, false, true, true, false)), (String ((Ascii
         (true, false, true, true, false, true, true, false)), (String
         ((Ascii (true, false, true, false, false, true, true, false)),
         (String ((Ascii (false, true, true, true, false, true, true,
         false)), (String ((Ascii (false, false, true, false, true, true,
         true, false)), EmptyString)))))))))))))))))))))) p)
  then let t =
         tf (String ((Ascii (false, false, true, false, true, true, true,
           false)), (String ((Ascii (true, false, false, true, true, true,
           true, false)), (String ((Ascii (false, false, false, false, true,
           true, true, false)), (String ((Ascii (true, false, true, false,
           false, true, true, false)), (String ((Ascii (true, false, false,
           false, false, false, true, false)), (String ((Ascii (false, true,
           true, true, false, true, true, false)), (String ((Ascii (false,
           true, true, true, false, true, true, false)), (String ((Ascii
           (true, true, true, true, false, true, true, false)), (String
           ((Ascii (false, false, true, false, true, true, true, false)),
           (String ((Ascii (true, false, false, false, false, true, true,
           false)), (String ((Ascii (false, false, true, false, true, true,
           true, false)), (String ((Ascii (true, false, false, true, false,
           true, true, false)), (String ((Ascii (true, true, true, true,
           false, true, true, false)), (String ((Ascii (false, true, true,
           true, false, true, true, false)),
           EmptyString)))))))))))))))))))))))))))) p
       in
       if is_nnull t then None else Some t
  else None

(** val emits_of : env -> relem -> st -> str list * st **)

let emits_of e x s =
  match x with
  | RProp (key, _, _, _) ->
    ((match key with
      | Ident (sy, _, _) -> sy :: []
      | Str (v, _) -> v :: []
      | _ -> []), s)
  | RGetter (_, _, _) -> ([], s)
  | RMethod (key, _, _) ->
    ((match key with
      | Ident (sy, _, _) -> sy :: []
      | Str (v, _) -> v :: []
      | _ -> []), s)
  | RCall params ->
    (match params with
     | [] -> ([], s)
     | p :: _ ->
       (match param_type_ann p with
        | Some tann ->
          rsus e type_fuel
            (tf (String ((Ascii (false, false, true, false, true, true, true,
              false)), (String ((Ascii (true, false, false, true, true, true,
              true, false)), (String ((Ascii (false, false, false, false,
              true, true, true, false)), (String ((Ascii (true, false, true,
              false, false, true, true, false)), (String ((Ascii (true,
              false, false, false, false, false, true, false)), (String
              ((Ascii (false, true, true, true, false, true, true, false)),
              (String ((Ascii (false, true, true, true, false, true, true,
              false)), (String ((Ascii (true, true, true, true, false, true,
              true, false)), (String ((Ascii (false, false, true, false,
              true, true, true, false)), (String ((Ascii (true, false, false,
              false, false, true, true, false)), (String ((Ascii (false,
              false, true, false, true, true, true, false)), (String ((Ascii
              (true, false, false, true, false, true, true, false)), (String
              ((Ascii (true, true, true, true, false, true, true, false)),
              (String ((Ascii (false, true, true, true, false, true, true,
              false)), EmptyString)))))))))))))))))))))))))))) tann) s
        | None -> ([], s)))

(** val extract_emits_type : env -> node -> st -> node option * st **)

let extract_emits_type e arg0 s =
  match arg0 with
  | Elem (spread, setup) ->
    if spread
    then (None, s)
    else (match nth_param setup (S O) with
          | Some p ->
            let tann =
              match p with
              | NScalar _ ->
                if (||)
                     (is_ty (String ((Ascii (true, false, false, false,
                       false, false, true, false)), (String ((Ascii (false,
                       true, false, false, true, true, true, false)), (String
                       ((Ascii (false, true, false, false, true, true, true,
                       false)), (String ((Ascii (true, false, false, false,
                       false, true, true, false)), (String ((Ascii (true,
                       false, false, true, true, true, true, false)), (String
                       ((Ascii (false, false, false, false, true, false,
                       true, false)), (String ((Ascii (true, false, false,
                       false, false, true, true, false)), (String ((Ascii
                       (false, false, true, false, true, true, true, false)),
                       (String ((Ascii (false, false, true, false, true,
                       true, true, false)), (String ((Ascii (true, false,
                       true, false, false, true, true, false)), (String
                       ((Ascii (false, true, false, false, true, true, true,
                       false)), (String ((Ascii (false, true, true, true,
                       false, true, true, false)),
                       EmptyString)))))))))))))))))))))))) p)
                     (is_ty (String ((Ascii (true, true, true, true, false,
                       false, true, false)), (String ((Ascii (false, true,
                       false, false, false, true, true, false)), (String
                       ((Ascii (false, true, false, true, false, true, true,
                       false)), (String ((Ascii (true, false, true, false,
                       false, true, true, false)), (String ((Ascii (true,
                       true, false, false, false, true, true, false)),
                       (String ((Ascii (false, false, true, false, true,
                       true, true, false)), (String ((Ascii (false, false,
                       false, false, true, false, true, false)), (String
                       ((Ascii (true, false, false, false, false, true, true,
                       false)), (String ((Ascii (false, false, true, false,
                       true, true, true, false)), (String ((Ascii (false,
                       false, true, false, true, true, true, false)), (String
                       ((Ascii (true, false, true, false, false, true, true,
                       false)), (String ((Ascii (false, true, false, false,
                       true, true, true, false)), (String ((Ascii (false,
                       true, true, true, false, true, true, false)),
                       EmptyString)))))))))))))))))))))))))) p)
                then let t =
                       tf (String ((Ascii (false, false, true, false, true,
                         true, true, false)), (String ((Ascii (true, false,
                         false, true, true, true, true, false)), (String
                         ((Ascii (false, false, false, false, true, true,
                         true, false)), (String ((Ascii (true, false, true,
                         false, false, true, true, false)), (String ((Ascii
                         (true, false, false, false, false, false, true,
                         false)), (String ((Ascii (false, true, true, true,
                         false, true, true, false)), (String ((Ascii (false,
                         true, true, true, false, true, true, false)),
                         (String ((Ascii (true, true, true, true, false,
                         true, true, false)), (String ((Ascii (false, false,
                         true, false, true, true, true, false)), (String
                         ((Ascii (true, false, false, false, false, true,
                         true, false)), (String ((Ascii (false, false, true,
                         false, true, true, true, false)), (String ((Ascii
                         (true, false, false, true, false, true, true,
                         false)), (String ((Ascii (true, true, true, true,
                         false, true, true, false)), (String ((Ascii (false,
                         true, true, true, false, true, true, false)),
                         EmptyString)))))))))))))))))))))))))))) p
                     in
                     if is_nnull t then None else Some t
                else None
              | BIdent (_, _, _, t) -> if is_nnull t then None else Some t
              | _ ->
                if (||)
                     (is_ty (String ((Ascii (true, false, false, false,
                       false, false, true, false)), (String ((Ascii (false,
                       true, false, false, true, true, true, false)), (String
                       ((Ascii (false, true, false, false, true, true, true,
                       false)), (String ((Ascii (true, false, false, false,
                       false, true, true, false)), (String ((Ascii (true,
                       false, false, true, true, true, true, false)), (String
                       ((Ascii (false, false, false, false, true, false,
                       true, false)), (String ((Ascii (true, false, false,
                       false, false, true, true, false)), (String ((Ascii
                       (false, false, true, false, true, true, true, false)),
                       (String ((Ascii (false, false, true, false, true,
                       true, true, false)), (String ((Ascii (true, false,
                       true, false, false, true, true, false)), (String
                       ((Ascii (false, true, false, false, true, true, true,
                       false)), (String ((Ascii (false, true, true, true,
                       false, true, true, false)),
                       EmptyString)))))))))))))))))))))))) p)
                     (is_ty (String ((Ascii (true, true, true, true, false,
                       false, true, false)), (String ((Ascii (false, true,
                       false, false, false, true, true, false)), (String
                       ((Ascii (false, true, false, true, false, true, true,
                       false)), (String ((Ascii (true, false, true, false,
                       false, true, true, false)), (String ((Ascii (true,
                       true, false, false, false, true, true, false)),
                       (String ((Ascii (false, false, true, false, true,
                       true, true, false)), (String ((Ascii (false, false,
                       false, false, true, false, true, false)), (String
                       ((Ascii (true, false, false, false, false, true, true,
                       false)), (String ((Ascii (false, false, true, false,
                       true, true, true, false)), (String ((Ascii (false,
                       false, true, false, true, true, true, false)), (String
                       ((Ascii (true, false, true, false, false, true, true,
                       false)), (String ((Ascii (false, true, false, false,
                       true, true, true, false)), (String ((Ascii (false,
                       true, true, true, false, true, true, false)),
                       EmptyString)))))))))))))))))))))))))) p)
                then let t =
                       tf (String ((Ascii (false, false, true, false, true,
                         true, true, false)), (String ((Ascii (true, false,
                         false, true, true, true, true, false)), (String
                         ((Ascii (false, false, false, false, true, true,
                         true, false)), (String ((Ascii (true, false, true,
                         false, false, true, true, false)), (String ((Ascii
                         (true, false, false, false, false, false, true,
                         false)), (String ((Ascii (false, true, true, true,
                         false, true, true, false)), (String ((Ascii (false,
                         true, true, true, false, true, true, false)),
                         (String ((Ascii (true, true, true, true, false,
                         true, true, false)), (String ((Ascii (false, false,
                         true, false, true, true, true, false)), (String
                         ((Ascii (true, false, false, false, false, true,
                         true, false)), (String ((Ascii (false, false, true,
                         false, true, true, true, false)), (String ((Ascii
                         (true, false, false, true, false, true, true,
                         false)), (String ((Ascii (true, true, true, true,
                         false, true, true, false)), (String ((Ascii (false,
                         true, true, true, false, true, true, false)),
                         EmptyString)))))))))))))))))))))))))))) p
                     in
                     if is_nnull t then None else Some t
                else None
            in
            (match tann with
             | Some tann0 ->
               let ty =
                 tf (String ((Ascii (false, false, true, false, true, true,
                   true, false)), (String ((Ascii (true, false, false, true,
                   true, true, true, false)), (String ((Ascii (false, false,
                   false, false, true, true, true, false)), (String ((Ascii
                   (true, false, true, false, false, true, true, false)),
                   (String ((Ascii (true, false, false, false, false, false,
                   true, false)), (String ((Ascii (false, true, true, true,
                   false, true, true, false)), (String ((Ascii (false, true,
                   true, true, false, true, true, false)), (String ((Ascii
                   (true, true, true, true, false, true, true, false)),
                   (String ((Ascii (false, false, true, false, true, true,
                   true, false)), (String ((Ascii (true, false, false, false,
                   false, true, true, false)), (String ((Ascii (false, false,
                   true, false, true, true, true, false)), (String ((Ascii
                   (true, false, false, true, false, true, true, false)),
                   (String ((Ascii (true, true, true, true, false, true,
                   true, false)), (String ((Ascii (false, true, true, true,
                   false, true, true, false)),
                   EmptyString)))))))))))))))))))))))))))) tann0
               in
               (match ref_ident ty with
                | Some p0 ->
                  let (sym, _) = p0 in
                  if (&&)
                       (sq (String ((Ascii (true, true, false, false, true,
                         false, true, false)), (String ((Ascii (true, false,
                         true, false, false, true, true, false)), (String
                         ((Ascii (false, false, true, false, true, true,
                         true, false)), (String ((Ascii (true, false, true,
                         false, true, true, true, false)), (String ((Ascii
                         (false, false, false, false, true, true, true,
                         false)), (String ((Ascii (true, true, false, false,
                         false, false, true, false)), (String ((Ascii (true,
                         true, true, true, false, true, true, false)),
                         (String ((Ascii (false, true, true, true, false,
                         true, true, false)), (String ((Ascii (false, false,
                         true, false, true, true, true, false)), (String
                         ((Ascii (true, false, true, false, false, true,
                         true, false)), (String ((Ascii (false, false, false,
                         true, true, true, true, false)), (String ((Ascii
                         (false, false, true, false, true, true, true,
                         false)), EmptyString)))))))))))))))))))))))) sym)
                       (is_ty (String ((Ascii (false, false, true, false,
                         true, false, true, false)), (String ((Ascii (true,
                         true, false, false, true, true, true, false)),
                         (String ((Ascii (false, false, true, false, true,
                         false, true, false)), (String ((Ascii (true, false,
                         false, true, true, true, true, false)), (String
                         ((Ascii (false, false, false, false, true, true,
                         true, false)), (String ((Ascii (true, false, true,
                         false, false, true, true, false)), (String ((Ascii
                         (false, false, false, false, true, false, true,
                         false)), (String ((Ascii (true, false, false, false,
                         false, true, true, false)), (String ((Ascii (false,
                         true, false, false, true, true, true, false)),
                         (String ((Ascii (true, false, false, false, false,
                         true, true, false)), (String ((Ascii (true, false,
                         true, true, false, true, true, false)), (String
                         ((Ascii (true, false, true, false, false, true,
                         true, false)), (String ((Ascii (false, false, true,
                         false, true, true, true, false)), (String ((Ascii
                         (true, false, true, false, false, true, true,
                         false)), (String ((Ascii (false, true, false, false,
                         true, true, true, false)), (String ((Ascii (true,
                         false, false, true, false, false, true, false)),
                         (String ((Ascii (false, true, true, true, false,
                         true, true, false)), (String ((Ascii (true, true,
                         false, false, true, true, true, false)), (String
                         ((Ascii (false, false, true, false, true, true,
                         true, false)), (String ((Ascii (true, false, false,
                         false, false, true, true, false)), (String ((Ascii
                         (false, true, true, true, false, true, true,
                         false)), (String ((Ascii (false, false, true, false,
                         true, true, true, false)), (String ((Ascii (true,
                         false, false, true, false, true, true, false)),
                         (String ((Ascii (true, false, false, false, false,
                         true, true, false)), (String ((Ascii (false, false,
                         true, false, true, true, true, false)), (String
                         ((Ascii (true, false, false, true, false, true,
                         true, false)), (String ((Ascii (true, true, true,
                         true, false, true, true, false)), (String ((Ascii
                         (false, true, true, true, false, true, true,
                         false)),
                         EmptyString))))))))))))))))))))))))))))))))))))))))))))))))))))))))
                         (tf (String ((Ascii (false, false, true, false,
                           true, true, true, false)), (String ((Ascii (true,
                           false, false, true, true, true, true, false)),
                           (String ((Ascii (false, false, false, false, true,
                           true, true, false)), (String ((Ascii (true, false,
                           true, false, false, true, true, false)), (String
                           ((Ascii (false, false, false, false, true, false,
                           true, false)), (String ((Ascii (true, false,
                           false, false, false, true, true, false)), (String
                           ((Ascii (false, true, false, false, true, true,
                           true, false)), (String ((Ascii (true, false,
                           false, false, false, true, true, false)), (String
                           ((Ascii (true, false, true, true, false, true,
                           true, false)), (String ((Ascii (true, true, false,
                           false, true, true, true, false)),
                           EmptyString)))))))))))))))))))) ty))
                  then (match type_params ty with
                        | [] -> (None, s)
                        | def :: _ ->
                          let (elems, s0) = rte e type_fuel def s in
                          let (names, s1) =
                            fold_left (fun pat x ->
                              let (acc, s1) = pat in
                              let (n, s2) = emits_of e x s1 in
                              ((app acc n), s2)) elems ([], s0)
                          in
                          ((Some (Arr
                          (map (fun n -> Elem (false, (mk_str n))) names))),
                          s1))
                  else (None, s)
                | None -> (None, s))
             | None -> (None, s))
          | None -> (None, s))
  | _ -> (None, s)

(** val key_is : string -> node -> bool **)

let key_is name = function
| IdName s -> sq name s
| Str (v, _) -> sq name v
| _ -> false

(** val has_ident_key : string -> node list -> bool **)

let has_ident_key name props =
  existsb (fun p ->
    match p with
    | NObj _ ->
      if (||)
           (is_ty (String ((Ascii (true, true, true, false, false, false,
             true, false)), (String ((Ascii (true, false, true, false, false,
             true, true, false)), (String ((Ascii (false, false, true, false,
             true, true, true, false)), (String ((Ascii (false, false, true,
             false, true, true, true, false)), (String ((Ascii (true, false,
             true, false, false, true, true, false)), (String ((Ascii (false,
             true, false, false, true, true, true, false)), (String ((Ascii
             (false, false, false, false, true, false, true, false)), (String
             ((Ascii (false, true, false, false, true, true, true, false)),
             (String ((Ascii (true, true, true, true, false, true, true,
             false)), (String ((Ascii (false, false, false, false, true,
             true, true, false)), (String ((Ascii (true, false, true, false,
             false, true, true, false)), (String ((Ascii (false, true, false,
             false, true, true, true, false)), (String ((Ascii (false, false,
             true, false, true, true, true, false)), (String ((Ascii (true,
             false, false, true, true, true, true, false)),
             EmptyString)))))))))))))))))))))))))))) p)
           (is_ty (String ((Ascii (true, false, true, true, false, false,
             true, false)), (String ((Ascii (true, false, true, false, false,
             true, true, false)), (String ((Ascii (false, false, true, false,
             true, true, true, false)), (String ((Ascii (false, false, false,
             true, false, true, true, false)), (String ((Ascii (true, true,
             true, true, false, true, true, false)), (String ((Ascii (false,
             false, true, false, false, true, true, false)), (String ((Ascii
             (false, false, false, false, true, false, true, false)), (String
             ((Ascii (false, true, false, false, true, true, true, false)),
             (String ((Ascii (true, true, true, true, false, true, true,
             false)), (String ((Ascii (false, false, false, false, true,
             true, true, false)), (String ((Ascii (true, false, true, false,
             false, true, true, false)), (String ((Ascii (false, true, false,
             false, true, true, true, false)), (String ((Ascii (false, false,
             true, false, true, true, true, false)), (String ((Ascii (true,
             false, false, true, true, true, true, false)),
             EmptyString)))))))))))))))))))))))))))) p)
      then key_is name
             (tf (String ((Ascii (true, true, false, true, false, true, true,
               false)), (String ((Ascii (true, false, true, false, false,
               true, true, false)), (String ((Ascii (true, false, false,
               true, true, true, true, false)), EmptyString)))))) p)
      else false
    | Ident (s, _, _) -> sq name s
    | KV (k, _) -> key_is name k
    | _ -> false) props

(** val insert_before_spread : node -> node list -> node list **)

let rec insert_before_spread kv = function
| [] -> kv :: []
| p :: r ->
  (match p with
   | Spread _ -> kv :: (p :: r)
   | _ -> p :: (insert_before_spread kv r))

(** val inject_option : node list -> string -> node -> node list **)

let inject_option args name value =
  let kv = KV ((IdName (s_ name)), value) in
  (match args with
   | [] -> []
   | a0 :: l ->
     (match l with
      | [] -> a0 :: ((Elem (false, (Obj (kv :: [])))) :: [])
      | n :: r ->
        (match n with
         | Elem (spread, other) ->
           if spread
           then args
           else (match other with
                 | Obj props ->
                   if has_ident_key name props
                   then args
                   else a0 :: ((Elem (false, (Obj
                          (insert_before_spread kv props)))) :: r)
                 | _ ->
                   a0 :: ((Elem (false, (Obj (kv :: ((Spread
                     other) :: []))))) :: r))
         | _ -> app args ((Elem (false, (Obj (kv :: [])))) :: []))))

(** val has_option : node list -> string -> bool **)

let has_option args name =
  match args with
  | [] -> false
  | _ :: l ->
    (match l with
     | [] -> false
     | n0 :: _ ->
       (match n0 with
        | Elem (spread, e) ->
          if spread
          then false
          else (match e with
                | Obj props -> has_ident_key name props
                | _ -> false)
        | _ -> false))

(** val is_define_component_call : node -> st -> bool **)

let is_define_component_call n s =
  match n with
  | Call (_, _, callee, _, _) ->
    (match callee with
     | Ident (sym, c, _) ->
       (match s.define_component with
        | Some dc ->
          (&&) (N.eqb dc c)
            (sq (String ((Ascii (false, false, true, false, false, true,
              true, false)), (String ((Ascii (true, false, true, false,
              false, true, true, false)), (String ((Ascii (false, true, true,
              false, false, true, true, false)), (String ((Ascii (true,
              false, false, true, false, true, true, false)), (String ((Ascii
              (false, true, true, true, false, true, true, false)), (String
              ((Ascii (true, false, true, false, false, true, true, false)),
              (String ((Ascii (true, true, false, false, false, false, true,
              false)), (String ((Ascii (true, true, true, true, false, true,
              true, false)), (String ((Ascii (true, false, true, true, false,
              true, true, false)), (String ((Ascii (false, false, false,
              false, true, true, true, false)), (String ((Ascii (true, true,
              true, true, false, true, true, false)), (String ((Ascii (false,
              true, true, true, false, true, true, false)), (String ((Ascii
              (true, false, true, false, false, true, true, false)), (String
              ((Ascii (false, true, true, true, false, true, true, false)),
              (String ((Ascii (false, false, true, false, true, true, true,
              false)), EmptyString)))))))))))))))))))))))))))))) sym)
        | None -> false)
     | _ -> false)
  | _ -> false

(** val hook_call : env -> node -> st -> node * st **)

let hook_call e n s =
  if negb e.e_opts.o_resolve_type
  then (n, s)
  else if negb (is_define_component_call n s)
       then (n, s)
       else (match n with
             | Call (sy, c, f, args, ta) ->
               (match args with
                | [] -> (n, s)
                | a0 :: l ->
                  (match l with
                   | [] ->
                     if has_option args (String ((Ascii (false, false, false,
                          false, true, true, true, false)), (String ((Ascii
                          (false, true, false, false, true, true, true,
                          false)), (String ((Ascii (true, true, true, true,
                          false, true, true, false)), (String ((Ascii (false,
                          false, false, false, true, true, true, false)),
                          (String ((Ascii (true, true, false, false, true,
                          true, true, false)), EmptyString))))))))))
                     then if has_option args (String ((Ascii (true, false,
                               true, false, false, true, true, false)),
                               (String ((Ascii (true, false, true, true,
                               false, true, true, false)), (String ((Ascii
                               (true, false, false, true, false, true, true,
                               false)), (String ((Ascii (false, false, true,
                               false, true, true, true, false)), (String
                               ((Ascii (true, true, false, false, true, true,
                               true, false)), EmptyString))))))))))
                          then ((Call (sy, c, f, args, ta)), s)
                          else let (emits, s0) = extract_emits_type e a0 s in
                               let args0 =
                                 match emits with
                                 | Some e0 ->
                                   inject_option args (String ((Ascii (true,
                                     false, true, false, false, true, true,
                                     false)), (String ((Ascii (true, false,
                                     true, true, false, true, true, false)),
                                     (String ((Ascii (true, false, false,
                                     true, false, true, true, false)),
                                     (String ((Ascii (false, false, true,
                                     false, true, true, true, false)),
                                     (String ((Ascii (true, true, false,
                                     false, true, true, true, false)),
                                     EmptyString)))))))))) e0
                                 | None -> args
                               in
                               ((Call (sy, c, f, args0, ta)), s0)
                     else let (props, s0) = extract_props_type e a0 s in
                          let args0 =
                            match props with
                            | Some p ->
                              inject_option args (String ((Ascii (false,
                                false, false, false, true, true, true,
                                false)), (String ((Ascii (false, true, false,
                                false, true, true, true, false)), (String
                                ((Ascii (true, true, true, true, false, true,
                                true, false)), (String ((Ascii (false, false,
                                false, false, true, true, true, false)),
                                (String ((Ascii (true, true, false, false,
                                true, true, true, false)),
                                EmptyString)))))))))) p
                            | None -> args
                          in
                          if has_option args0 (String ((Ascii (true, false,
                               true, false, false, true, true, false)),
                               (String ((Ascii (true, false, true, true,
                               false, true, true, false)), (String ((Ascii
                               (true, false, false, true, false, true, true,
                               false)), (String ((Ascii (false, false, true,
                               false, true, true, true, false)), (String
                               ((Ascii (true, true, false, false, true, true,
                               true, false)), EmptyString))))))))))
                          then ((Call (sy, c, f, args0, ta)), s0)
                          else let (emits, s1) = extract_emits_type e a0 s0 in
                               let args1 =
                                 match emits with
                                 | Some e0 ->
                                   inject_option args0 (String ((Ascii (true,
                                     false, true, false, false, true, true,
                                     false)), (String ((Ascii (true, false,
                                     true, true, false, true, true, false)),
                                     (String ((Ascii (true, false, false,
                                     true, false, true, true, false)),
                                     (String ((Ascii (false, false, true,
                                     false, true, true, true, false)),
                                     (String ((Ascii (true, true, false,
                                     false, true, true, true, false)),
                                     EmptyString)))))))))) e0
                                 | None -> args0
                               in
                               ((Call (sy, c, f, args1, ta)), s1)
                   | n0 :: _ ->
                     (match n0 with
                      | Elem (spread, _) ->
                        if spread
                        then (n, s)
                        else if has_option args (String ((Ascii (false,
                                  false, false, false, true, true, true,
                                  false)), (String ((Ascii (false, true,
                                  false, false, true, true, true, false)),
                                  (String ((Ascii (true, true, true, true,
                                  false, true, true, false)), (String ((Ascii
                                  (false, false, false, false, true, true,
                                  true, false)), (String ((Ascii (true, true,
                                  false, false, true, true, true, false)),
                                  EmptyString))))))))))
                             then if has_option args (String ((Ascii (true,
                                       false, true, false, false, true, true,
                                       false)), (String ((Ascii (true, false,
                                       true, true, false, true, true,
                                       false)), (String ((Ascii (true, false,
                                       false, true, false, true, true,
                                       false)), (String ((Ascii (false,
                                       false, true, false, true, true, true,
                                       false)), (String ((Ascii (true, true,
                                       false, false, true, true, true,
                                       false)), EmptyString))))))))))
                                  then ((Call (sy, c, f, args, ta)), s)
                                  else let (emits, s0) =
                                         extract_emits_type e a0 s
                                       in
                                       let args0 =
                                         match emits with
                                         | Some e0 ->
                                           inject_option args (String ((Ascii
                                             (true, false, true, false,
                                             false, true, true, false)),
                                             (String ((Ascii (true, false,
                                             true, true, false, true, true,
                                             false)), (String ((Ascii (true,
                                             false, false, true, false, true,
                                             true, false)), (String ((Ascii
                                             (false, false, true, false,
                                             true, true, true, false)),
                                             (String ((Ascii (true, true,
                                             false, false, true, true, true,
                                             false)), EmptyString)))))))))) e0
                                         | None -> args
                                       in
                                       ((Call (sy, c, f, args0, ta)), s0)
                             else let (props, s0) = extract_props_type e a0 s
                                  in
                                  let args0 =
                                    match props with
                                    | Some p ->
                                      inject_option args (String ((Ascii
                                        (false, false, false, false, true,
                                        true, true, false)), (String ((Ascii
                                        (false, true, false, false, true,
                                        true, true, false)), (String ((Ascii
                                        (true, true, true, true, false, true,
                                        true, false)), (String ((Ascii
                                        (false, false, false, false, true,
                                        true, true, false)), (String ((Ascii
                                        (true, true, false, false, true,
                                        true, true, false)),
                                        EmptyString)))))))))) p
                                    | None -> args
                                  in
                                  if has_option args0 (String ((Ascii (true,
                                       false, true, false, false, true, true,
                                       false)), (String ((Ascii (true, false,
                                       true, true, false, true, true,
                                       false)), (String ((Ascii (true, false,
                                       false, true, false, true, true,
                                       false)), (String ((Ascii (false,
                                       false, true, false, true, true, true,
                                       false)), (String ((Ascii (true, true,
                                       false, false, true, true, true,
                                       false)), EmptyString))))))))))
                                  then ((Call (sy, c, f, args0, ta)), s0)
                                  else let (emits, s1) =
                                         extract_emits_type e a0 s0
                                       in
                                       let args1 =
                                         match emits with
                                         | Some e0 ->
                                           inject_option args0 (String
                                             ((Ascii (true, false, true,
                                             false, false, true, true,
                                             false)), (String ((Ascii (true,
                                             false, true, true, false, true,
                                             true, false)), (String ((Ascii
                                             (true, false, false, true,
                                             false, true, true, false)),
                                             (String ((Ascii (false, false,
                                             true, false, true, true, true,
                                             false)), (String ((Ascii (true,
                                             true, false, false, true, true,
                                             true, false)),
                                             EmptyString)))))))))) e0
                                         | None -> args0
                                       in
                                       ((Call (sy, c, f, args1, ta)), s1)
                      | _ ->
                        if has_option args (String ((Ascii (false, false,
                             false, false, true, true, true, false)), (String
                             ((Ascii (false, true, false, false, true, true,
                             true, false)), (String ((Ascii (true, true,
                             true, true, false, true, true, false)), (String
                             ((Ascii (false, false, false, false, true, true,
                             true, false)), (String ((Ascii (true, true,
                             false, false, true, true, true, false)),
                             EmptyString))))))))))
                        then if has_option args (String ((Ascii (true, false,
                                  true, false, false, true, true, false)),
                                  (String ((Ascii (true, false, true, true,
                                  false, true, true, false)), (String ((Ascii
                                  (true, false, false, true, false, true,
                                  true, false)), (String ((Ascii (false,
                                  false, true, false, true, true, true,
                                  false)), (String ((Ascii (true, true,
                                  false, false, true, true, true, false)),
                                  EmptyString))))))))))
                             then ((Call (sy, c, f, args, ta)), s)
                             else let (emits, s0) = extract_emits_type e a0 s
                                  in
                                  let args0 =
                                    match emits with
                                    | Some e0 ->
                                      inject_option args (String ((Ascii
                                        (true, false, true, false, false,
                                        true, true, false)), (String ((Ascii
                                        (true, false, true, true, false,
                                        true, true, false)), (String ((Ascii
                                        (true, false, false, true, false,
                                        true, true, false)), (String ((Ascii
                                        (false, false, true, false, true,
                                        true, true, false)), (String ((Ascii
                                        (true, true, false, false, true,
                                        true, true, false)),
                                        EmptyString)))))))))) e0
                                    | None -> args
                                  in
                                  ((Call (sy, c, f, args0, ta)), s0)
                        else let (props, s0) = extract_props_type e a0 s in
                             let args0 =
                               match props with
                               | Some p ->
                                 inject_option args (String ((Ascii (false,
                                   false, false, false, true, true, true,
                                   false)), (String ((Ascii (false, true,
                                   false, false, true, true, true, false)),
                                   (String ((Ascii (true, true, true, true,
                                   false, true, true, false)), (String
                                   ((Ascii (false, false, false, false, true,
                                   true, true, false)), (String ((Ascii
                                   (true, true, false, false, true, true,
                                   true, false)), EmptyString)))))))))) p
                               | None -> args
                             in
                             if has_option args0 (String ((Ascii (true,
                                  false, true, false, false, true, true,
                                  false)), (String ((Ascii (true, false,
                                  true, true, false, true, true, false)),
                                  (String ((Ascii (true, false, false, true,
                                  false, true, true, false)), (String ((Ascii
                                  (false, false, true, false, true, true,
                                  true, false)), (String ((Ascii (true, true,
                                  false, false, true, true, true, false)),
                                  EmptyString))))))))))
                             then ((Call (sy, c, f, args0, ta)), s0)
                             else let (emits, s1) = extract_emits_type e a0 s0
                                  in
                                  let args1 =
                                    match emits with
                                    | Some e0 ->
                                      inject_option args0 (String ((Ascii
                                        (true, false, true, false, false,
                                        true, true, false)), (String ((Ascii
                                        (true, false, true, true, false,
                                        true, true, false)), (String ((Ascii
                                        (true, false, false, true, false,
                                        true, true, false)), (String ((Ascii
                                        (false, false, true, false, true,
                                        true, true, false)), (String ((Ascii
                                        (true, true, false, false, true,
                                        true, true, false)),
                                        EmptyString)))))))))) e0
                                    | None -> args0
                                  in
                                  ((Call (sy, c, f, args1, ta)), s1))))
             | _ -> (n, s))

(** val hook_declarator : env -> node -> st -> node * st **)

let hook_declarator e n s =
  if negb e.e_opts.o_resolve_type
  then (n, s)
  else (match n with
        | NObj l ->
          (match l with
           | [] -> (n, s)
           | ft :: l0 ->
             (match l0 with
              | [] -> (n, s)
              | n0 :: l1 ->
                (match n0 with
                 | Field (ki, v) ->
                   (match v with
                    | BIdent (sym, bc, bo, bt) ->
                      (match l1 with
                       | [] -> (n, s)
                       | n1 :: l2 ->
                         (match n1 with
                          | Field (kn, call) ->
                            (match call with
                             | Call (sy, c, f, args, ta) ->
                               (match l2 with
                                | [] -> (n, s)
                                | fd :: l3 ->
                                  (match l3 with
                                   | [] ->
                                     if (&&)
                                          ((&&)
                                            (sq (String ((Ascii (true, false,
                                              false, true, false, true, true,
                                              false)), (String ((Ascii
                                              (false, false, true, false,
                                              false, true, true, false)),
                                              EmptyString)))) ki)
                                            (sq (String ((Ascii (true, false,
                                              false, true, false, true, true,
                                              false)), (String ((Ascii
                                              (false, true, true, true,
                                              false, true, true, false)),
                                              (String ((Ascii (true, false,
                                              false, true, false, true, true,
                                              false)), (String ((Ascii
                                              (false, false, true, false,
                                              true, true, true, false)),
                                              EmptyString)))))))) kn))
                                          (is_define_component_call call s)
                                     then ((NObj (ft :: ((Field (ki, (BIdent
                                            (sym, bc, bo, bt)))) :: ((Field
                                            (kn, (Call (sy, c, f,
                                            (inject_option args (String
                                              ((Ascii (false, true, true,
                                              true, false, true, true,
                                              false)), (String ((Ascii (true,
                                              false, false, false, false,
                                              true, true, false)), (String
                                              ((Ascii (true, false, true,
                                              true, false, true, true,
                                              false)), (String ((Ascii (true,
                                              false, true, false, false,
                                              true, true, false)),
                                              EmptyString))))))))
                                              (mk_str sym)),
                                            ta)))) :: (fd :: []))))), s)
                                     else (n, s)
                                   | _ :: _ -> (n, s)))
                             | _ -> (n, s))
                          | _ -> (n, s)))
                    | _ -> (n, s))
                 | _ -> (n, s))))
        | _ -> (n, s))
