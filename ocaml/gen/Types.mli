open Ascii
open Ast
open BinNat
open BinNums
open Datatypes
open Json
open List
open State
open Str
open String
open Util

val tf : string -> node -> node

val tlist : string -> node -> node list

val tbool : string -> node -> bool

val is_ty : string -> node -> bool

val ann_type : node -> node option

val type_params : node -> node list

val reg_get : str -> coq_N -> ((str * coq_N) * node) list -> node option

val reg_update :
  str -> coq_N -> (node option -> node) -> ((str * coq_N) * node) list ->
  ((str * coq_N) * node) list

val iface_extends : node -> node list

val iface_body : node -> node list

val register_ts_decl : node -> st -> st

val collect_ts_decls : env -> (node -> node list) -> node -> st -> st

type relem =
| RProp of node * bool * bool * node
| RGetter of node * bool * node
| RMethod of node * bool * bool
| RCall of node list

val refine_member : node -> relem option

val refine_members : node list -> relem list

val key_name : node -> str option

val relem_key : relem -> node option

val msg_unres_ref : str

val msg_other_mod : str

val msg_unres : str

val msg_index_key : str

val diag : str -> st -> st

val lit_str_type : node -> str option

val ref_ident : node -> (str * coq_N) option

val rsus : env -> nat -> node -> st -> str list * st

val fn_ref : node

val mk_union : node list -> node

val is_kw : string -> node -> bool

val is_num_lit_type : node -> str option

val index_all_string : node list -> node list

val index_by_keys : str list -> node list -> node list

val select_members : env -> nat -> node list -> node -> st -> node option * st

val usize_of_num : str -> nat option

val ria : env -> nat -> node -> node -> st -> node option * st

val key_in : str list -> relem -> bool -> bool

val rte : env -> nat -> node -> st -> relem list * st

val oset_insert : str option -> str option list -> str option list

val oset_extend : str option list -> str option list -> str option list

val members_runtime : node list -> str option list

val one : string -> str option list

val irt : env -> nat -> node -> st -> str option list * st

val type_fuel : nat

val extract_prop_name : node -> bool -> st -> node * st

val pname_eqb : node -> node -> bool

type prop_ir = { ir_key : node; ir_types : str option list; ir_required : bool }

val ir_update :
  node -> (prop_ir -> prop_ir) -> prop_ir list -> prop_ir list option

val infer_ann : env -> node -> st -> str option list * st

val ir_step : env -> (prop_ir list * st) -> relem -> prop_ir list * st

val type_expr : str option -> node

val num_to_string : str -> str

val default_matches : node -> node -> bool

val find_default : (node * node) list -> node -> node option

val unwrap_function_default : str option list -> node -> node

val build_props_type : env -> node -> (node * node) list -> st -> node * st

val pat_type_ann : nat -> node -> node option

val first_param : node -> node option

val nth_param : node -> nat -> node option

val lit_prop_name : node -> node option

val static_default : node -> (node * node) option

val static_defaults : node list -> (node * node) list option

val extract_props_type : env -> node -> st -> node option * st

val param_type_ann : node -> node option

val emits_of : env -> relem -> st -> str list * st

val extract_emits_type : env -> node -> st -> node option * st

val key_is : string -> node -> bool

val has_ident_key : string -> node list -> bool

val insert_before_spread : node -> node list -> node list

val inject_option : node list -> string -> node -> node list

val has_option : node list -> string -> bool

val is_define_component_call : node -> st -> bool

val hook_call : env -> node -> st -> node * st

val hook_declarator : env -> node -> st -> node * st
