open Ascii
open Ast
open BinNums
open Datatypes
open Json
open List
open Lower
open State
open Str
open String
open Util

val split_at_vmodels : node list -> ((node list * node) * node list) option

val vmodels_msg : str

val decouple_attrs : node list -> st -> node list * st

val pending_decls : st -> node list

val arrow_decls : st -> node list

val enter_scope : st -> st

val leave_scope : st -> st -> st

val is_block : node -> bool

val find_define_component : node list -> coq_N option

val post_import : node -> st -> st

type mode =
| MExpr
| MNoLower
| MSwitch
| MStmts

val visit_list_with :
  (mode -> node -> st -> node * st) -> mode -> node list -> st -> node
  list * st

val jsx_item_mode : node -> mode

val visit_jsx_list_with :
  (mode -> node -> st -> node * st) -> node list -> st -> node list * st

val visit_stmts_with :
  (mode -> node -> st -> node * st) -> node list -> st -> node list * st

val visit :
  env -> (node -> st -> node * st) -> (node -> st -> node * st) -> mode ->
  node -> st -> node * st

val pragma_in_text : nat -> str -> str option

val pragma_of_comment : str -> str option

val pragma_of_group : str list -> str option

val search_pragmas : str list list -> st -> st

val mk_import_spec : str -> node

val mk_import : node list -> string -> node

val finish_module : node list -> st -> node list * st

val transform_module :
  env -> (node -> st -> node * st) -> (node -> st -> node * st) -> (node ->
  st -> st) -> node -> node * st
