open Ascii
open BinNums
open Str
open String

(** val coq_PF_CLASS : coq_N **)

let coq_PF_CLASS =
  Npos (Coq_xO Coq_xH)

(** val coq_PF_STYLE : coq_N **)

let coq_PF_STYLE =
  Npos (Coq_xO (Coq_xO Coq_xH))

(** val coq_PF_PROPS : coq_N **)

let coq_PF_PROPS =
  Npos (Coq_xO (Coq_xO (Coq_xO Coq_xH)))

(** val coq_PF_FULL_PROPS : coq_N **)

let coq_PF_FULL_PROPS =
  Npos (Coq_xO (Coq_xO (Coq_xO (Coq_xO Coq_xH))))

(** val coq_PF_HYDRATE_EVENTS : coq_N **)

let coq_PF_HYDRATE_EVENTS =
  Npos (Coq_xO (Coq_xO (Coq_xO (Coq_xO (Coq_xO Coq_xH)))))

(** val coq_PF_NEED_PATCH : coq_N **)

let coq_PF_NEED_PATCH =
  Npos (Coq_xO (Coq_xO (Coq_xO (Coq_xO (Coq_xO (Coq_xO (Coq_xO (Coq_xO
    (Coq_xO Coq_xH)))))))))

(** val coq_SF_Stable : coq_N **)

let coq_SF_Stable =
  Npos Coq_xH

(** val coq_SF_Dynamic : coq_N **)

let coq_SF_Dynamic =
  Npos (Coq_xO Coq_xH)

(** val default_transform_on : bool **)

let default_transform_on =
  false

(** val default_optimize : bool **)

let default_optimize =
  false

(** val default_merge_props : bool **)

let default_merge_props =
  true

(** val default_enable_object_slots : bool **)

let default_enable_object_slots =
  true

(** val default_resolve_type : bool **)

let default_resolve_type =
  false

(** val option_keys : str list **)

let option_keys =
  (s_ (String ((Ascii (false, false, true, false, true, true, true, false)),
    (String ((Ascii (false, true, false, false, true, true, true, false)),
    (String ((Ascii (true, false, false, false, false, true, true, false)),
    (String ((Ascii (false, true, true, true, false, true, true, false)),
    (String ((Ascii (true, true, false, false, true, true, true, false)),
    (String ((Ascii (false, true, true, false, false, true, true, false)),
    (String ((Ascii (true, true, true, true, false, true, true, false)),
    (String ((Ascii (false, true, false, false, true, true, true, false)),
    (String ((Ascii (true, false, true, true, false, true, true, false)),
    (String ((Ascii (true, true, true, true, false, false, true, false)),
    (String ((Ascii (false, true, true, true, false, true, true, false)),
    EmptyString))))))))))))))))))))))) :: ((s_ (String ((Ascii (true, true,
                                             true, true, false, true, true,
                                             false)), (String ((Ascii (false,
                                             false, false, false, true, true,
                                             true, false)), (String ((Ascii
                                             (false, false, true, false,
                                             true, true, true, false)),
                                             (String ((Ascii (true, false,
                                             false, true, false, true, true,
                                             false)), (String ((Ascii (true,
                                             false, true, true, false, true,
                                             true, false)), (String ((Ascii
                                             (true, false, false, true,
                                             false, true, true, false)),
                                             (String ((Ascii (false, true,
                                             false, true, true, true, true,
                                             false)), (String ((Ascii (true,
                                             false, true, false, false, true,
                                             true, false)),
                                             EmptyString))))))))))))))))) :: (
    (s_ (String ((Ascii (true, true, false, false, false, true, true,
      false)), (String ((Ascii (true, false, true, false, true, true, true,
      false)), (String ((Ascii (true, true, false, false, true, true, true,
      false)), (String ((Ascii (false, false, true, false, true, true, true,
      false)), (String ((Ascii (true, true, true, true, false, true, true,
      false)), (String ((Ascii (true, false, true, true, false, true, true,
      false)), (String ((Ascii (true, false, true, false, false, false, true,
      false)), (String ((Ascii (false, false, true, true, false, true, true,
      false)), (String ((Ascii (true, false, true, false, false, true, true,
      false)), (String ((Ascii (true, false, true, true, false, true, true,
      false)), (String ((Ascii (true, false, true, false, false, true, true,
      false)), (String ((Ascii (false, true, true, true, false, true, true,
      false)), (String ((Ascii (false, false, true, false, true, true, true,
      false)), (String ((Ascii (false, false, false, false, true, false,
      true, false)), (String ((Ascii (true, false, false, false, false, true,
      true, false)), (String ((Ascii (false, false, true, false, true, true,
      true, false)), (String ((Ascii (false, false, true, false, true, true,
      true, false)), (String ((Ascii (true, false, true, false, false, true,
      true, false)), (String ((Ascii (false, true, false, false, true, true,
      true, false)), (String ((Ascii (false, true, true, true, false, true,
      true, false)), (String ((Ascii (true, true, false, false, true, true,
      true, false)), EmptyString))))))))))))))))))))))))))))))))))))))))))) :: (
    (s_ (String ((Ascii (true, false, true, true, false, true, true, false)),
      (String ((Ascii (true, false, true, false, false, true, true, false)),
      (String ((Ascii (false, true, false, false, true, true, true, false)),
      (String ((Ascii (true, true, true, false, false, true, true, false)),
      (String ((Ascii (true, false, true, false, false, true, true, false)),
      (String ((Ascii (false, false, false, false, true, false, true,
      false)), (String ((Ascii (false, true, false, false, true, true, true,
      false)), (String ((Ascii (true, true, true, true, false, true, true,
      false)), (String ((Ascii (false, false, false, false, true, true, true,
      false)), (String ((Ascii (true, true, false, false, true, true, true,
      false)), EmptyString))))))))))))))))))))) :: ((s_ (String ((Ascii
                                                      (true, false, true,
                                                      false, false, true,
                                                      true, false)), (String
                                                      ((Ascii (false, true,
                                                      true, true, false,
                                                      true, true, false)),
                                                      (String ((Ascii (true,
                                                      false, false, false,
                                                      false, true, true,
                                                      false)), (String
                                                      ((Ascii (false, true,
                                                      false, false, false,
                                                      true, true, false)),
                                                      (String ((Ascii (false,
                                                      false, true, true,
                                                      false, true, true,
                                                      false)), (String
                                                      ((Ascii (true, false,
                                                      true, false, false,
                                                      true, true, false)),
                                                      (String ((Ascii (true,
                                                      true, true, true,
                                                      false, false, true,
                                                      false)), (String
                                                      ((Ascii (false, true,
                                                      false, false, false,
                                                      true, true, false)),
                                                      (String ((Ascii (false,
                                                      true, false, true,
                                                      false, true, true,
                                                      false)), (String
                                                      ((Ascii (true, false,
                                                      true, false, false,
                                                      true, true, false)),
                                                      (String ((Ascii (true,
                                                      true, false, false,
                                                      false, true, true,
                                                      false)), (String
                                                      ((Ascii (false, false,
                                                      true, false, true,
                                                      true, true, false)),
                                                      (String ((Ascii (true,
                                                      true, false, false,
                                                      true, false, true,
                                                      false)), (String
                                                      ((Ascii (false, false,
                                                      true, true, false,
                                                      true, true, false)),
                                                      (String ((Ascii (true,
                                                      true, true, true,
                                                      false, true, true,
                                                      false)), (String
                                                      ((Ascii (false, false,
                                                      true, false, true,
                                                      true, true, false)),
                                                      (String ((Ascii (true,
                                                      true, false, false,
                                                      true, true, true,
                                                      false)),
                                                      EmptyString))))))))))))))))))))))))))))))))))) :: (
    (s_ (String ((Ascii (false, false, false, false, true, true, true,
      false)), (String ((Ascii (false, true, false, false, true, true, true,
      false)), (String ((Ascii (true, false, false, false, false, true, true,
      false)), (String ((Ascii (true, true, true, false, false, true, true,
      false)), (String ((Ascii (true, false, true, true, false, true, true,
      false)), (String ((Ascii (true, false, false, false, false, true, true,
      false)), EmptyString))))))))))))) :: ((s_ (String ((Ascii (false, true,
                                              false, false, true, true, true,
                                              false)), (String ((Ascii (true,
                                              false, true, false, false,
                                              true, true, false)), (String
                                              ((Ascii (true, true, false,
                                              false, true, true, true,
                                              false)), (String ((Ascii (true,
                                              true, true, true, false, true,
                                              true, false)), (String ((Ascii
                                              (false, false, true, true,
                                              false, true, true, false)),
                                              (String ((Ascii (false, true,
                                              true, false, true, true, true,
                                              false)), (String ((Ascii (true,
                                              false, true, false, false,
                                              true, true, false)), (String
                                              ((Ascii (false, false, true,
                                              false, true, false, true,
                                              false)), (String ((Ascii (true,
                                              false, false, true, true, true,
                                              true, false)), (String ((Ascii
                                              (false, false, false, false,
                                              true, true, true, false)),
                                              (String ((Ascii (true, false,
                                              true, false, false, true, true,
                                              false)),
                                              EmptyString))))))))))))))))))))))) :: []))))))

(** val html_tags : str list **)

let html_tags =
  (s_ (String ((Ascii (true, false, false, false, false, true, true, false)),
    EmptyString))) :: ((s_ (String ((Ascii (true, false, false, false, false,
                         true, true, false)), (String ((Ascii (false, true,
                         false, false, false, true, true, false)), (String
                         ((Ascii (false, true, false, false, false, true,
                         true, false)), (String ((Ascii (false, true, false,
                         false, true, true, true, false)),
                         EmptyString))))))))) :: ((s_ (String ((Ascii (true,
                                                    false, false, false,
                                                    false, true, true,
                                                    false)), (String ((Ascii
                                                    (false, false, true,
                                                    false, false, true, true,
                                                    false)), (String ((Ascii
                                                    (false, false, true,
                                                    false, false, true, true,
                                                    false)), (String ((Ascii
                                                    (false, true, false,
                                                    false, true, true, true,
                                                    false)), (String ((Ascii
                                                    (true, false, true,
                                                    false, false, true, true,
                                                    false)), (String ((Ascii
                                                    (true, true, false,
                                                    false, true, true, true,
                                                    false)), (String ((Ascii
                                                    (true, true, false,
                                                    false, true, true, true,
                                                    false)),
                                                    EmptyString))))))))))))))) :: (
    (s_ (String ((Ascii (true, false, false, false, false, true, true,
      false)), (String ((Ascii (false, true, false, false, true, true, true,
      false)), (String ((Ascii (true, false, true, false, false, true, true,
      false)), (String ((Ascii (true, false, false, false, false, true, true,
      false)), EmptyString))))))))) :: ((s_ (String ((Ascii (true, false,
                                          false, false, false, true, true,
                                          false)), (String ((Ascii (false,
                                          true, false, false, true, true,
                                          true, false)), (String ((Ascii
                                          (false, false, true, false, true,
                                          true, true, false)), (String
                                          ((Ascii (true, false, false, true,
                                          false, true, true, false)), (String
                                          ((Ascii (true, true, false, false,
                                          false, true, true, false)), (String
                                          ((Ascii (false, false, true, true,
                                          false, true, true, false)), (String
                                          ((Ascii (true, false, true, false,
                                          false, true, true, false)),
                                          EmptyString))))))))))))))) :: (
    (s_ (String ((Ascii (true, false, false, false, false, true, true,
      false)), (String ((Ascii (true, true, false, false, true, true, true,
      false)), (String ((Ascii (true, false, false, true, false, true, true,
      false)), (String ((Ascii (false, false, true, false, false, true, true,
      false)), (String ((Ascii (true, false, true, false, false, true, true,
      false)), EmptyString))))))))))) :: ((s_ (String ((Ascii (true, false,
                                            false, false, false, true, true,
                                            false)), (String ((Ascii (true,
                                            false, true, false, true, true,
                                            true, false)), (String ((Ascii
                                            (false, false, true, false,
                                            false, true, true, false)),
                                            (String ((Ascii (true, false,
                                            false, true, false, true, true,
                                            false)), (String ((Ascii (true,
                                            true, true, true, false, true,
                                            true, false)),
                                            EmptyString))))))))))) :: (
    (s_ (String ((Ascii (false, true, false, false, false, true, true,
      false)), EmptyString))) :: ((s_ (String ((Ascii (false, true, false,
                                    false, false, true, true, false)),
                                    (String ((Ascii (true, false, false,
                                    false, false, true, true, false)),
                                    (String ((Ascii (true, true, false,
                                    false, true, true, true, false)), (String
                                    ((Ascii (true, false, true, false, false,
                                    true, true, false)), EmptyString))))))))) :: (
    (s_ (String ((Ascii (false, true, false, false, false, true, true,
      false)), (String ((Ascii (false, false, true, false, false, true, true,
      false)), (String ((Ascii (true, false, false, true, false, true, true,
      false)), EmptyString))))))) :: ((s_ (String ((Ascii (false, true,
                                        false, false, false, true, true,
                                        false)), (String ((Ascii (false,
                                        false, true, false, false, true,
                                        true, false)), (String ((Ascii (true,
                                        true, true, true, false, true, true,
                                        false)), EmptyString))))))) :: (
    (s_ (String ((Ascii (false, true, false, false, false, true, true,
      false)), (String ((Ascii (false, false, true, true, false, true, true,
      false)), (String ((Ascii (true, true, true, true, false, true, true,
      false)), (String ((Ascii (true, true, false, false, false, true, true,
      false)), (String ((Ascii (true, true, false, true, false, true, true,
      false)), (String ((Ascii (true, false, false, false, true, true, true,
      false)), (String ((Ascii (true, false, true, false, true, true, true,
      false)), (String ((Ascii (true, true, true, true, false, true, true,
      false)), (String ((Ascii (false, false, true, false, true, true, true,
      false)), (String ((Ascii (true, false, true, false, false, true, true,
      false)), EmptyString))))))))))))))))))))) :: ((s_ (String ((Ascii
                                                      (false, true, false,
                                                      false, false, true,
                                                      true, false)), (String
                                                      ((Ascii (true, true,
                                                      true, true, false,
                                                      true, true, false)),
                                                      (String ((Ascii (false,
                                                      false, true, false,
                                                      false, true, true,
                                                      false)), (String
                                                      ((Ascii (true, false,
                                                      false, true, true,
                                                      true, true, false)),
                                                      EmptyString))))))))) :: (
    (s_ (String ((Ascii (false, true, false, false, false, true, true,
      false)), (String ((Ascii (false, true, false, false, true, true, true,
      false)), EmptyString))))) :: ((s_ (String ((Ascii (false, true, false,
                                      false, false, true, true, false)),
                                      (String ((Ascii (true, false, true,
                                      false, true, true, true, false)),
                                      (String ((Ascii (false, false, true,
                                      false, true, true, true, false)),
                                      (String ((Ascii (false, false, true,
                                      false, true, true, true, false)),
                                      (String ((Ascii (true, true, true,
                                      true, false, true, true, false)),
                                      (String ((Ascii (false, true, true,
                                      true, false, true, true, false)),
                                      EmptyString))))))))))))) :: ((s_
                                                                    (String
                                                                    ((Ascii
                                                                    (true,
                                                                    true,
                                                                    false,
                                                                    false,
                                                                    false,
                                                                    true,
                                                                    true,
                                                                    false)),
                                                                    (String
                                                                    ((Ascii
                                                                    (true,
                                                                    false,
                                                                    false,
                                                                    false,
                                                                    false,
                                                                    true,
                                                                    true,
                                                                    false)),
                                                                    (String
                                                                    ((Ascii
                                                                    (false,
                                                                    true,
                                                                    true,
                                                                    true,
                                                                    false,
                                                                    true,
                                                                    true,
                                                                    false)),
                                                                    (String
                                                                    ((Ascii
                                                                    (false,
                                                                    true,
                                                                    true,
                                                                    false,
                                                                    true,
                                                                    true,
                                                                    true,
                                                                    false)),
                                                                    (String
                                                                    ((Ascii
                                                                    (true,
                                                                    false,
                                                                    false,
                                                                    false,
                                                                    false,
                                                                    true,
                                                                    true,
                                                                    false)),
                                                                    (String
                                                                    ((Ascii
                                                                    (true,
                                                                    true,
                                                                    false,
                                                                    false,
                                                                    true,
                                                                    true,
                                                                    true,
                                                                    false)),
                                                                    EmptyString))))))))))))) :: (
    (s_ (String ((Ascii (true, true, false, false, false, true, true,
      false)), (String ((Ascii (true, false, false, false, false, true, true,
      false)), (String ((Ascii (false, false, false, false, true, true, true,
      false)), (String ((Ascii (false, false, true, false, true, true, true,
      false)), (String ((Ascii (true, false, false, true, false, true, true,
      false)), (String ((Ascii (true, true, true, true, false, true, true,
      false)), (String ((Ascii (false, true, true, true, false, true, true,
      false)), EmptyString))))))))))))))) :: ((s_ (String ((Ascii (true,
                                                true, false, false, false,
                                                true, true, false)), (String
                                                ((Ascii (true, false, false,
                                                true, false, true, true,
                                                false)), (String ((Ascii
                                                (false, false, true, false,
                                                true, true, true, false)),
                                                (String ((Ascii (true, false,
                                                true, false, false, true,
                                                true, false)),
                                                EmptyString))))))))) :: (
    (s_ (String ((Ascii (true, true, false, false, false, true, true,
      false)), (String ((Ascii (true, true, true, true, false, true, true,
      false)), (String ((Ascii (false, false, true, false, false, true, true,
      false)), (String ((Ascii (true, false, true, false, false, true, true,
      false)), EmptyString))))))))) :: ((s_ (String ((Ascii (true, true,
                                          false, false, false, true, true,
                                          false)), (String ((Ascii (true,
                                          true, true, true, false, true,
                                          true, false)), (String ((Ascii
                                          (false, false, true, true, false,
                                          true, true, false)),
                                          EmptyString))))))) :: ((s_ (String
                                                                   ((Ascii
                                                                   (true,
                                                                   true,
                                                                   false,
                                                                   false,
                                                                   false,
                                                                   true,
                                                                   true,
                                                                   false)),
                                                                   (String
                                                                   ((Ascii
                                                                   (true,
                                                                   true,
                                                                   true,
                                                                   true,
                                                                   false,
                                                                   true,
                                                                   true,
                                                                   false)),
                                                                   (String
                                                                   ((Ascii
                                                                   (false,
                                                                   false,
                                                                   true,
                                                                   true,
                                                                   false,
                                                                   true,
                                                                   true,
                                                                   false)),
                                                                   (String
                                                                   ((Ascii
                                                                   (true,
                                                                   true,
                                                                   true,
                                                                   false,
                                                                   false,
                                                                   true,
                                                                   true,
                                                                   false)),
                                                                   (String
                                                                   ((Ascii
                                                                   (false,
                                                                   true,
                                                                   false,
                                                                   false,
                                                                   true,
                                                                   true,
                                                                   true,
                                                                   false)),
                                                                   (String
                                                                   ((Ascii
                                                                   (true,
                                                                   true,
                                                                   true,
                                                                   true,
                                                                   false,
                                                                   true,
                                                                   true,
                                                                   false)),
                                                                   (String
                                                                   ((Ascii
                                                                   (true,
                                                                   false,
                                                                   true,
                                                                   false,
                                                                   true,
                                                                   true,
                                                                   true,
                                                                   false)),
                                                                   (String
                                                                   ((Ascii
                                                                   (false,
                                                                   false,
                                                                   false,
                                                                   false,
                                                                   true,
                                                                   true,
                                                                   true,
                                                                   false)),
                                                                   EmptyString))))))))))))))))) :: (
    (s_ (String ((Ascii (false, false, true, false, false, true, true,
      false)), (String ((Ascii (true, false, false, false, false, true, true,
      false)), (String ((Ascii (false, false, true, false, true, true, true,
      false)), (String ((Ascii (true, false, false, false, false, true, true,
      false)), EmptyString))))))))) :: ((s_ (String ((Ascii (false, false,
                                          true, false, false, true, true,
                                          false)), (String ((Ascii (true,
                                          false, false, false, false, true,
                                          true, false)), (String ((Ascii
                                          (false, false, true, false, true,
                                          true, true, false)), (String
                                          ((Ascii (true, false, false, false,
                                          false, true, true, false)), (String
                                          ((Ascii (false, false, true, true,
                                          false, true, true, false)), (String
                                          ((Ascii (true, false, false, true,
                                          false, true, true, false)), (String
                                          ((Ascii (true, true, false, false,
                                          true, true, true, false)), (String
                                          ((Ascii (false, false, true, false,
                                          true, true, true, false)),
                                          EmptyString))))))))))))))))) :: (
    (s_ (String ((Ascii (false, false, true, false, false, true, true,
      false)), (String ((Ascii (false, false, true, false, false, true, true,
      false)), EmptyString))))) :: ((s_ (String ((Ascii (false, false, true,
                                      false, false, true, true, false)),
                                      (String ((Ascii (true, false, true,
                                      false, false, true, true, false)),
                                      (String ((Ascii (false, false, true,
                                      true, false, true, true, false)),
                                      EmptyString))))))) :: ((s_ (String
                                                               ((Ascii
                                                               (false, false,
                                                               true, false,
                                                               false, true,
                                                               true, false)),
                                                               (String
                                                               ((Ascii (true,
                                                               false, true,
                                                               false, false,
                                                               true, true,
                                                               false)),
                                                               (String
                                                               ((Ascii
                                                               (false, false,
                                                               true, false,
                                                               true, true,
                                                               true, false)),
                                                               (String
                                                               ((Ascii (true,
                                                               false, false,
                                                               false, false,
                                                               true, true,
                                                               false)),
                                                               (String
                                                               ((Ascii (true,
                                                               false, false,
                                                               true, false,
                                                               true, true,
                                                               false)),
                                                               (String
                                                               ((Ascii
                                                               (false, false,
                                                               true, true,
                                                               false, true,
                                                               true, false)),
                                                               (String
                                                               ((Ascii (true,
                                                               true, false,
                                                               false, true,
                                                               true, true,
                                                               false)),
                                                               EmptyString))))))))))))))) :: (
    (s_ (String ((Ascii (false, false, true, false, false, true, true,
      false)), (String ((Ascii (false, true, true, false, false, true, true,
      false)), (String ((Ascii (false, true, true, true, false, true, true,
      false)), EmptyString))))))) :: ((s_ (String ((Ascii (false, false,
                                        true, false, false, true, true,
                                        false)), (String ((Ascii (true,
                                        false, false, true, false, true,
                                        true, false)), (String ((Ascii (true,
                                        false, false, false, false, true,
                                        true, false)), (String ((Ascii
                                        (false, false, true, true, false,
                                        true, true, false)), (String ((Ascii
                                        (true, true, true, true, false, true,
                                        true, false)), (String ((Ascii (true,
                                        true, true, false, false, true, true,
                                        false)), EmptyString))))))))))))) :: (
    (s_ (String ((Ascii (false, false, true, false, false, true, true,
      false)), (String ((Ascii (true, false, false, true, false, true, true,
      false)), (String ((Ascii (false, true, true, false, true, true, true,
      false)), EmptyString))))))) :: ((s_ (String ((Ascii (false, false,
                                        true, false, false, true, true,
                                        false)), (String ((Ascii (false,
                                        false, true, true, false, true, true,
                                        false)), EmptyString))))) :: (
    (s_ (String ((Ascii (false, false, true, false, false, true, true,
      false)), (String ((Ascii (false, false, true, false, true, true, true,
      false)), EmptyString))))) :: ((s_ (String ((Ascii (true, false, true,
                                      false, false, true, true, false)),
                                      (String ((Ascii (true, false, true,
                                      true, false, true, true, false)),
                                      EmptyString))))) :: ((s_ (String
                                                             ((Ascii (true,
                                                             false, true,
                                                             false, false,
                                                             true, true,
                                                             false)), (String
                                                             ((Ascii (true,
                                                             false, true,
                                                             true, false,
                                                             true, true,
                                                             false)), (String
                                                             ((Ascii (false,
                                                             true, false,
                                                             false, false,
                                                             true, true,
                                                             false)), (String
                                                             ((Ascii (true,
                                                             false, true,
                                                             false, false,
                                                             true, true,
                                                             false)), (String
                                                             ((Ascii (false,
                                                             false, true,
                                                             false, false,
                                                             true, true,
                                                             false)),
                                                             EmptyString))))))))))) :: (
    (s_ (String ((Ascii (false, true, true, false, false, true, true,
      false)), (String ((Ascii (true, false, false, true, false, true, true,
      false)), (String ((Ascii (true, false, true, false, false, true, true,
      false)), (String ((Ascii (false, false, true, true, false, true, true,
      false)), (String ((Ascii (false, false, true, false, false, true, true,
      false)), (String ((Ascii (true, true, false, false, true, true, true,
      false)), (String ((Ascii (true, false, true, false, false, true, true,
      false)), (String ((Ascii (false, false, true, false, true, true, true,
      false)), EmptyString))))))))))))))))) :: ((s_ (String ((Ascii (false,
                                                  true, true, false, false,
                                                  true, true, false)),
                                                  (String ((Ascii (true,
                                                  false, false, true, false,
                                                  true, true, false)),
                                                  (String ((Ascii (true,
                                                  true, true, false, false,
                                                  true, true, false)),
                                                  (String ((Ascii (true,
                                                  true, false, false, false,
                                                  true, true, false)),
                                                  (String ((Ascii (true,
                                                  false, false, false, false,
                                                  true, true, false)),
                                                  (String ((Ascii (false,
                                                  false, false, false, true,
                                                  true, true, false)),
                                                  (String ((Ascii (false,
                                                  false, true, false, true,
                                                  true, true, false)),
                                                  (String ((Ascii (true,
                                                  false, false, true, false,
                                                  true, true, false)),
                                                  (String ((Ascii (true,
                                                  true, true, true, false,
                                                  true, true, false)),
                                                  (String ((Ascii (false,
                                                  true, true, true, false,
                                                  true, true, false)),
                                                  EmptyString))))))))))))))))))))) :: (
    (s_ (String ((Ascii (false, true, true, false, false, true, true,
      false)), (String ((Ascii (true, false, false, true, false, true, true,
      false)), (String ((Ascii (true, true, true, false, false, true, true,
      false)), (String ((Ascii (true, false, true, false, true, true, true,
      false)), (String ((Ascii (false, true, false, false, true, true, true,
      false)), (String ((Ascii (true, false, true, false, false, true, true,
      false)), EmptyString))))))))))))) :: ((s_ (String ((Ascii (false, true,
                                              true, false, false, true, true,
                                              false)), (String ((Ascii (true,
                                              true, true, true, false, true,
                                              true, false)), (String ((Ascii
                                              (true, true, true, true, false,
                                              true, true, false)), (String
                                              ((Ascii (false, false, true,
                                              false, true, true, true,
                                              false)), (String ((Ascii (true,
                                              false, true, false, false,
                                              true, true, false)), (String
                                              ((Ascii (false, true, false,
                                              false, true, true, true,
                                              false)),
                                              EmptyString))))))))))))) :: (
    (s_ (String ((Ascii (false, true, true, false, false, true, true,
      false)), (String ((Ascii (true, true, true, true, false, true, true,
      false)), (String ((Ascii (false, true, false, false, true, true, true,
      false)), (String ((Ascii (true, false, true, true, false, true, true,
      false)), EmptyString))))))))) :: ((s_ (String ((Ascii (false, false,
                                          false, true, false, true, true,
                                          false)), (String ((Ascii (true,
                                          false, false, false, true, true,
                                          false, false)), EmptyString))))) :: (
    (s_ (String ((Ascii (false, false, false, true, false, true, true,
      false)), (String ((Ascii (false, true, false, false, true, true, false,
      false)), EmptyString))))) :: ((s_ (String ((Ascii (false, false, false,
                                      true, false, true, true, false)),
                                      (String ((Ascii (true, true, false,
                                      false, true, true, false, false)),
                                      EmptyString))))) :: ((s_ (String
                                                             ((Ascii (false,
                                                             false, false,
                                                             true, false,
                                                             true, true,
                                                             false)), (String
                                                             ((Ascii (false,
                                                             false, true,
                                                             false, true,
                                                             true, false,
                                                             false)),
                                                             EmptyString))))) :: (
    (s_ (String ((Ascii (false, false, false, true, false, true, true,
      false)), (String ((Ascii (true, false, true, false, true, true, false,
      false)), EmptyString))))) :: ((s_ (String ((Ascii (false, false, false,
                                      true, false, true, true, false)),
                                      (String ((Ascii (false, true, true,
                                      false, true, true, false, false)),
                                      EmptyString))))) :: ((s_ (String
                                                             ((Ascii (false,
                                                             false, false,
                                                             true, false,
                                                             true, true,
                                                             false)), (String
                                                             ((Ascii (true,
                                                             false, true,
                                                             false, false,
                                                             true, true,
                                                             false)), (String
                                                             ((Ascii (true,
                                                             false, false,
                                                             false, false,
                                                             true, true,
                                                             false)), (String
                                                             ((Ascii (false,
                                                             false, true,
                                                             false, false,
                                                             true, true,
                                                             false)),
                                                             EmptyString))))))))) :: (
    (s_ (String ((Ascii (false, false, false, true, false, true, true,
      false)), (String ((Ascii (true, false, true, false, false, true, true,
      false)), (String ((Ascii (true, false, false, false, false, true, true,
      false)), (String ((Ascii (false, false, true, false, false, true, true,
      false)), (String ((Ascii (true, false, true, false, false, true, true,
      false)), (String ((Ascii (false, true, false, false, true, true, true,
      false)), EmptyString))))))))))))) :: ((s_ (String ((Ascii (false,
                                              false, false, true, false,
                                              true, true, false)), (String
                                              ((Ascii (true, true, true,
                                              false, false, true, true,
                                              false)), (String ((Ascii
                                              (false, true, false, false,
                                              true, true, true, false)),
                                              (String ((Ascii (true, true,
                                              true, true, false, true, true,
                                              false)), (String ((Ascii (true,
                                              false, true, false, true, true,
                                              true, false)), (String ((Ascii
                                              (false, false, false, false,
                                              true, true, true, false)),
                                              EmptyString))))))))))))) :: (
    (s_ (String ((Ascii (false, false, false, true, false, true, true,
      false)), (String ((Ascii (false, true, false, false, true, true, true,
      false)), EmptyString))))) :: ((s_ (String ((Ascii (false, false, false,
                                      true, false, true, true, false)),
                                      (String ((Ascii (false, false, true,
                                      false, true, true, true, false)),
                                      (String ((Ascii (true, false, true,
                                      true, false, true, true, false)),
                                      (String ((Ascii (false, false, true,
                                      true, false, true, true, false)),
                                      EmptyString))))))))) :: ((s_ (String
                                                                 ((Ascii
                                                                 (true,
                                                                 false,
                                                                 false, true,
                                                                 false, true,
                                                                 true,
                                                                 false)),
                                                                 EmptyString))) :: (
    (s_ (String ((Ascii (true, false, false, true, false, true, true,
      false)), (String ((Ascii (false, true, true, false, false, true, true,
      false)), (String ((Ascii (false, true, false, false, true, true, true,
      false)), (String ((Ascii (true, false, false, false, false, true, true,
      false)), (String ((Ascii (true, false, true, true, false, true, true,
      false)), (String ((Ascii (true, false, true, false, false, true, true,
      false)), EmptyString))))))))))))) :: ((s_ (String ((Ascii (true, false,
                                              false, true, false, true, true,
                                              false)), (String ((Ascii (true,
                                              false, true, true, false, true,
                                              true, false)), (String ((Ascii
                                              (true, true, true, false,
                                              false, true, true, false)),
                                              EmptyString))))))) :: (
    (s_ (String ((Ascii (true, false, false, true, false, true, true,
      false)), (String ((Ascii (false, true, true, true, false, true, true,
      false)), (String ((Ascii (false, false, false, false, true, true, true,
      false)), (String ((Ascii (true, false, true, false, true, true, true,
      false)), (String ((Ascii (false, false, true, false, true, true, true,
      false)), EmptyString))))))))))) :: ((s_ (String ((Ascii (true, false,
                                            false, true, false, true, true,
                                            false)), (String ((Ascii (false,
                                            true, true, true, false, true,
                                            true, false)), (String ((Ascii
                                            (true, true, false, false, true,
                                            true, true, false)),
                                            EmptyString))))))) :: ((s_
                                                                    (String
                                                                    ((Ascii
                                                                    (true,
                                                                    true,
                                                                    false,
                                                                    true,
                                                                    false,
                                                                    true,
                                                                    true,
                                                                    false)),
                                                                    (String
                                                                    ((Ascii
                                                                    (false,
                                                                    true,
                                                                    false,
                                                                    false,
                                                                    false,
                                                                    true,
                                                                    true,
                                                                    false)),
                                                                    (String
                                                                    ((Ascii
                                                                    (false,
                                                                    false,
                                                                    true,
                                                                    false,
                                                                    false,
                                                                    true,
                                                                    true,
                                                                    false)),
                                                                    EmptyString))))))) :: (
    (s_ (String ((Ascii (false, false, true, true, false, true, true,
      false)), (String ((Ascii (true, false, false, false, false, true, true,
      false)), (String ((Ascii (false, true, false, false, false, true, true,
      false)), (String ((Ascii (true, false, true, false, false, true, true,
      false)), (String ((Ascii (false, false, true, true, false, true, true,
      false)), EmptyString))))))))))) :: ((s_ (String ((Ascii (false, false,
                                            true, true, false, true, true,
                                            false)), (String ((Ascii (true,
                                            false, true, false, false, true,
                                            true, false)), (String ((Ascii
                                            (true, true, true, false, false,
                                            true, true, false)), (String
                                            ((Ascii (true, false, true,
                                            false, false, true, true,
                                            false)), (String ((Ascii (false,
                                            true, true, true, false, true,
                                            true, false)), (String ((Ascii
                                            (false, false, true, false,
                                            false, true, true, false)),
                                            EmptyString))))))))))))) :: (
    (s_ (String ((Ascii (false, false, true, true, false, true, true,
      false)), (String ((Ascii (true, false, false, true, false, true, true,
      false)), EmptyString))))) :: ((s_ (String ((Ascii (false, false, true,
                                      true, false, true, true, false)),
                                      (String ((Ascii (true, false, false,
                                      true, false, true, true, false)),
                                      (String ((Ascii (false, true, true,
                                      true, false, true, true, false)),
                                      (String ((Ascii (true, true, false,
                                      true, false, true, true, false)),
                                      EmptyString))))))))) :: ((s_ (String
                                                                 ((Ascii
                                                                 (true,
                                                                 false, true,
                                                                 true, false,
                                                                 true, true,
                                                                 false)),
                                                                 (String
                                                                 ((Ascii
                                                                 (true,
                                                                 false,
                                                                 false,
                                                                 false,
                                                                 false, true,
                                                                 true,
                                                                 false)),
                                                                 (String
                                                                 ((Ascii
                                                                 (true,
                                                                 false,
                                                                 false, true,
                                                                 false, true,
                                                                 true,
                                                                 false)),
                                                                 (String
                                                                 ((Ascii
                                                                 (false,
                                                                 true, true,
                                                                 true, false,
                                                                 true, true,
                                                                 false)),
                                                                 EmptyString))))))))) :: (
    (s_ (String ((Ascii (true, false, true, true, false, true, true, false)),
      (String ((Ascii (true, false, false, false, false, true, true, false)),
      (String ((Ascii (false, false, false, false, true, true, true, false)),
      EmptyString))))))) :: ((s_ (String ((Ascii (true, false, true, true,
                               false, true, true, false)), (String ((Ascii
                               (true, false, false, false, false, true, true,
                               false)), (String ((Ascii (false, true, false,
                               false, true, true, true, false)), (String
                               ((Ascii (true, true, false, true, false, true,
                               true, false)), EmptyString))))))))) :: (
    (s_ (String ((Ascii (true, false, true, true, false, true, true, false)),
      (String ((Ascii (true, false, false, false, false, true, true, false)),
      (String ((Ascii (false, false, true, false, true, true, true, false)),
      (String ((Ascii (false, false, false, true, false, true, true, false)),
      EmptyString))))))))) :: ((s_ (String ((Ascii (true, false, true, true,
                                 false, true, true, false)), (String ((Ascii
                                 (true, false, true, false, false, true,
                                 true, false)), (String ((Ascii (false, true,
                                 true, true, false, true, true, false)),
                                 (String ((Ascii (true, false, true, false,
                                 true, true, true, false)),
                                 EmptyString))))))))) :: ((s_ (String ((Ascii
                                                            (true, false,
                                                            true, true,
                                                            false, true,
                                                            true, false)),
                                                            (String ((Ascii
                                                            (true, false,
                                                            true, false,
                                                            false, true,
                                                            true, false)),
                                                            (String ((Ascii
                                                            (false, true,
                                                            true, true,
                                                            false, true,
                                                            true, false)),
                                                            (String ((Ascii
                                                            (true, false,
                                                            true, false,
                                                            true, true, true,
                                                            false)), (String
                                                            ((Ascii (true,
                                                            false, false,
                                                            true, false,
                                                            true, true,
                                                            false)), (String
                                                            ((Ascii (false,
                                                            false, true,
                                                            false, true,
                                                            true, true,
                                                            false)), (String
                                                            ((Ascii (true,
                                                            false, true,
                                                            false, false,
                                                            true, true,
                                                            false)), (String
                                                            ((Ascii (true,
                                                            false, true,
                                                            true, false,
                                                            true, true,
                                                            false)),
                                                            EmptyString))))))))))))))))) :: (
    (s_ (String ((Ascii (true, false, true, true, false, true, true, false)),
      (String ((Ascii (true, false, true, false, false, true, true, false)),
      (String ((Ascii (false, false, true, false, true, true, true, false)),
      (String ((Ascii (true, false, false, false, false, true, true, false)),
      EmptyString))))))))) :: ((s_ (String ((Ascii (true, false, true, true,
                                 false, true, true, false)), (String ((Ascii
                                 (true, false, true, false, false, true,
                                 true, false)), (String ((Ascii (false,
                                 false, true, false, true, true, true,
                                 false)), (String ((Ascii (true, false, true,
                                 false, false, true, true, false)), (String
                                 ((Ascii (false, true, false, false, true,
                                 true, true, false)), EmptyString))))))))))) :: (
    (s_ (String ((Ascii (false, true, true, true, false, true, true, false)),
      (String ((Ascii (true, false, false, false, false, true, true, false)),
      (String ((Ascii (false, true, true, false, true, true, true, false)),
      EmptyString))))))) :: ((s_ (String ((Ascii (false, true, true, true,
                               false, true, true, false)), (String ((Ascii
                               (true, true, true, true, false, true, true,
                               false)), (String ((Ascii (true, true, false,
                               false, true, true, true, false)), (String
                               ((Ascii (true, true, false, false, false,
                               true, true, false)), (String ((Ascii (false,
                               true, false, false, true, true, true, false)),
                               (String ((Ascii (true, false, false, true,
                               false, true, true, false)), (String ((Ascii
                               (false, false, false, false, true, true, true,
                               false)), (String ((Ascii (false, false, true,
                               false, true, true, true, false)),
                               EmptyString))))))))))))))))) :: ((s_ (String
                                                                  ((Ascii
                                                                  (true,
                                                                  true, true,
                                                                  true,
                                                                  false,
                                                                  true, true,
                                                                  false)),
                                                                  (String
                                                                  ((Ascii
                                                                  (false,
                                                                  true,
                                                                  false,
                                                                  false,
                                                                  false,
                                                                  true, true,
                                                                  false)),
                                                                  (String
                                                                  ((Ascii
                                                                  (false,
                                                                  true,
                                                                  false,
                                                                  true,
                                                                  false,
                                                                  true, true,
                                                                  false)),
                                                                  (String
                                                                  ((Ascii
                                                                  (true,
                                                                  false,
                                                                  true,
                                                                  false,
                                                                  false,
                                                                  true, true,
                                                                  false)),
                                                                  (String
                                                                  ((Ascii
                                                                  (true,
                                                                  true,
                                                                  false,
                                                                  false,
                                                                  false,
                                                                  true, true,
                                                                  false)),
                                                                  (String
                                                                  ((Ascii
                                                                  (false,
                                                                  false,
                                                                  true,
                                                                  false,
                                                                  true, true,
                                                                  true,
                                                                  false)),
                                                                  EmptyString))))))))))))) :: (
    (s_ (String ((Ascii (true, true, true, true, false, true, true, false)),
      (String ((Ascii (false, false, true, true, false, true, true, false)),
      EmptyString))))) :: ((s_ (String ((Ascii (true, true, true, true,
                             false, true, true, false)), (String ((Ascii
                             (false, false, false, false, true, true, true,
                             false)), (String ((Ascii (false, false, true,
                             false, true, true, true, false)), (String
                             ((Ascii (true, true, true, false, false, true,
                             true, false)), (String ((Ascii (false, true,
                             false, false, true, true, true, false)), (String
                             ((Ascii (true, true, true, true, false, true,
                             true, false)), (String ((Ascii (true, false,
                             true, false, true, true, true, false)), (String
                             ((Ascii (false, false, false, false, true, true,
                             true, false)), EmptyString))))))))))))))))) :: (
    (s_ (String ((Ascii (true, true, true, true, false, true, true, false)),
      (String ((Ascii (false, false, false, false, true, true, true, false)),
      (String ((Ascii (false, false, true, false, true, true, true, false)),
      (String ((Ascii (true, false, false, true, false, true, true, false)),
      (String ((Ascii (true, true, true, true, false, true, true, false)),
      (String ((Ascii (false, true, true, true, false, true, true, false)),
      EmptyString))))))))))))) :: ((s_ (String ((Ascii (true, true, true,
                                     true, false, true, true, false)),
                                     (String ((Ascii (true, false, true,
                                     false, true, true, true, false)),
                                     (String ((Ascii (false, false, true,
                                     false, true, true, true, false)),
                                     (String ((Ascii (false, false, false,
                                     false, true, true, true, false)),
                                     (String ((Ascii (true, false, true,
                                     false, true, true, true, false)),
                                     (String ((Ascii (false, false, true,
                                     false, true, true, true, false)),
                                     EmptyString))))))))))))) :: ((s_ (String
                                                                    ((Ascii
                                                                    (false,
                                                                    false,
                                                                    false,
                                                                    false,
                                                                    true,
                                                                    true,
                                                                    true,
                                                                    false)),
                                                                    EmptyString))) :: (
    (s_ (String ((Ascii (false, false, false, false, true, true, true,
      false)), (String ((Ascii (true, false, false, false, false, true, true,
      false)), (String ((Ascii (false, true, false, false, true, true, true,
      false)), (String ((Ascii (true, false, false, false, false, true, true,
      false)), (String ((Ascii (true, false, true, true, false, true, true,
      false)), EmptyString))))))))))) :: ((s_ (String ((Ascii (false, false,
                                            false, false, true, true, true,
                                            false)), (String ((Ascii (true,
                                            false, false, true, false, true,
                                            true, false)), (String ((Ascii
                                            (true, true, false, false, false,
                                            true, true, false)), (String
                                            ((Ascii (false, false, true,
                                            false, true, true, true, false)),
                                            (String ((Ascii (true, false,
                                            true, false, true, true, true,
                                            false)), (String ((Ascii (false,
                                            true, false, false, true, true,
                                            true, false)), (String ((Ascii
                                            (true, false, true, false, false,
                                            true, true, false)),
                                            EmptyString))))))))))))))) :: (
    (s_ (String ((Ascii (false, false, false, false, true, true, true,
      false)), (String ((Ascii (false, true, false, false, true, true, true,
      false)), (String ((Ascii (true, false, true, false, false, true, true,
      false)), EmptyString))))))) :: ((s_ (String ((Ascii (false, false,
                                        false, false, true, true, true,
                                        false)), (String ((Ascii (false,
                                        true, false, false, true, true, true,
                                        false)), (String ((Ascii (true, true,
                                        true, true, false, true, true,
                                        false)), (String ((Ascii (true, true,
                                        true, false, false, true, true,
                                        false)), (String ((Ascii (false,
                                        true, false, false, true, true, true,
                                        false)), (String ((Ascii (true,
                                        false, true, false, false, true,
                                        true, false)), (String ((Ascii (true,
                                        true, false, false, true, true, true,
                                        false)), (String ((Ascii (true, true,
                                        false, false, true, true, true,
                                        false)), EmptyString))))))))))))))))) :: (
    (s_ (String ((Ascii (true, false, false, false, true, true, true,
      false)), EmptyString))) :: ((s_ (String ((Ascii (false, true, false,
                                    false, true, true, true, false)), (String
                                    ((Ascii (false, true, false, false,
                                    false, true, true, false)),
                                    EmptyString))))) :: ((s_ (String ((Ascii
                                                           (false, true,
                                                           false, false,
                                                           true, true, true,
                                                           false)), (String
                                                           ((Ascii (false,
                                                           false, false,
                                                           false, true, true,
                                                           true, false)),
                                                           EmptyString))))) :: (
    (s_ (String ((Ascii (false, true, false, false, true, true, true,
      false)), (String ((Ascii (false, false, true, false, true, true, true,
      false)), EmptyString))))) :: ((s_ (String ((Ascii (false, true, false,
                                      false, true, true, true, false)),
                                      (String ((Ascii (false, false, true,
                                      false, true, true, true, false)),
                                      (String ((Ascii (true, true, false,
                                      false, false, true, true, false)),
                                      EmptyString))))))) :: ((s_ (String
                                                               ((Ascii
                                                               (false, true,
                                                               false, false,
                                                               true, true,
                                                               true, false)),
                                                               (String
                                                               ((Ascii (true,
                                                               false, true,
                                                               false, true,
                                                               true, true,
                                                               false)),
                                                               (String
                                                               ((Ascii
                                                               (false, true,
                                                               false, false,
                                                               false, true,
                                                               true, false)),
                                                               (String
                                                               ((Ascii (true,
                                                               false, false,
                                                               true, true,
                                                               true, true,
                                                               false)),
                                                               EmptyString))))))))) :: (
    (s_ (String ((Ascii (true, true, false, false, true, true, true, false)),
      EmptyString))) :: ((s_ (String ((Ascii (true, true, false, false, true,
                           true, true, false)), (String ((Ascii (true, false,
                           false, false, false, true, true, false)), (String
                           ((Ascii (true, false, true, true, false, true,
                           true, false)), (String ((Ascii (false, false,
                           false, false, true, true, true, false)),
                           EmptyString))))))))) :: ((s_ (String ((Ascii
                                                      (true, true, false,
                                                      false, true, true,
                                                      true, false)), (String
                                                      ((Ascii (true, true,
                                                      false, false, false,
                                                      true, true, false)),
                                                      (String ((Ascii (false,
                                                      true, false, false,
                                                      true, true, true,
                                                      false)), (String
                                                      ((Ascii (true, false,
                                                      false, true, false,
                                                      true, true, false)),
                                                      (String ((Ascii (false,
                                                      false, false, false,
                                                      true, true, true,
                                                      false)), (String
                                                      ((Ascii (false, false,
                                                      true, false, true,
                                                      true, true, false)),
                                                      EmptyString))))))))))))) :: (
    (s_ (String ((Ascii (true, true, false, false, true, true, true, false)),
      (String ((Ascii (true, false, true, false, false, true, true, false)),
      (String ((Ascii (true, false, false, false, false, true, true, false)),
      (String ((Ascii (false, true, false, false, true, true, true, false)),
      (String ((Ascii (true, true, false, false, false, true, true, false)),
      (String ((Ascii (false, false, false, true, false, true, true, false)),
      EmptyString))))))))))))) :: ((s_ (String ((Ascii (true, true, false,
                                     false, true, true, true, false)),
                                     (String ((Ascii (true, false, true,
                                     false, false, true, true, false)),
                                     (String ((Ascii (true, true, false,
                                     false, false, true, true, false)),
                                     (String ((Ascii (false, false, true,
                                     false, true, true, true, false)),
                                     (String ((Ascii (true, false, false,
                                     true, false, true, true, false)),
                                     (String ((Ascii (true, true, true, true,
                                     false, true, true, false)), (String
                                     ((Ascii (false, true, true, true, false,
                                     true, true, false)),
                                     EmptyString))))))))))))))) :: ((s_
                                                                    (String
                                                                    ((Ascii
                                                                    (true,
                                                                    true,
                                                                    false,
                                                                    false,
                                                                    true,
                                                                    true,
                                                                    true,
                                                                    false)),
                                                                    (String
                                                                    ((Ascii
                                                                    (true,
                                                                    false,
                                                                    true,
                                                                    false,
                                                                    false,
                                                                    true,
                                                                    true,
                                                                    false)),
                                                                    (String
                                                                    ((Ascii
                                                                    (false,
                                                                    false,
                                                                    true,
                                                                    true,
                                                                    false,
                                                                    true,
                                                                    true,
                                                                    false)),
                                                                    (String
                                                                    ((Ascii
                                                                    (true,
                                                                    false,
                                                                    true,
                                                                    false,
                                                                    false,
                                                                    true,
                                                                    true,
                                                                    false)),
                                                                    (String
                                                                    ((Ascii
                                                                    (true,
                                                                    true,
                                                                    false,
                                                                    false,
                                                                    false,
                                                                    true,
                                                                    true,
                                                                    false)),
                                                                    (String
                                                                    ((Ascii
                                                                    (false,
                                                                    false,
                                                                    true,
                                                                    false,
                                                                    true,
                                                                    true,
                                                                    true,
                                                                    false)),
                                                                    EmptyString))))))))))))) :: (
    (s_ (String ((Ascii (true, true, false, false, true, true, true, false)),
      (String ((Ascii (false, false, true, true, false, true, true, false)),
      (String ((Ascii (true, true, true, true, false, true, true, false)),
      (String ((Ascii (false, false, true, false, true, true, true, false)),
      EmptyString))))))))) :: ((s_ (String ((Ascii (true, true, false, false,
                                 true, true, true, false)), (String ((Ascii
                                 (true, false, true, true, false, true, true,
                                 false)), (String ((Ascii (true, false,
                                 false, false, false, true, true, false)),
                                 (String ((Ascii (false, false, true, true,
                                 false, true, true, false)), (String ((Ascii
                                 (false, false, true, true, false, true,
                                 true, false)), EmptyString))))))))))) :: (
    (s_ (String ((Ascii (true, true, false, false, true, true, true, false)),
      (String ((Ascii (true, true, true, true, false, true, true, false)),
      (String ((Ascii (true, false, true, false, true, true, true, false)),
      (String ((Ascii (false, true, false, false, true, true, true, false)),
      (String ((Ascii (true, true, false, false, false, true, true, false)),
      (String ((Ascii (true, false, true, false, false, true, true, false)),
      EmptyString))))))))))))) :: ((s_ (String ((Ascii (true, true, false,
                                     false, true, true, true, false)),
                                     (String ((Ascii (false, false, false,
                                     false, true, true, true, false)),
                                     (String ((Ascii (true, false, false,
                                     false, false, true, true, false)),
                                     (String ((Ascii (false, true, true,
                                     true, false, true, true, false)),
                                     EmptyString))))))))) :: ((s_ (String
                                                                ((Ascii
                                                                (true, true,
                                                                false, false,
                                                                true, true,
                                                                true,
                                                                false)),
                                                                (String
                                                                ((Ascii
                                                                (false,
                                                                false, true,
                                                                false, true,
                                                                true, true,
                                                                false)),
                                                                (String
                                                                ((Ascii
                                                                (false, true,
                                                                false, false,
                                                                true, true,
                                                                true,
                                                                false)),
                                                                (String
                                                                ((Ascii
                                                                (true, true,
                                                                true, true,
                                                                false, true,
                                                                true,
                                                                false)),
                                                                (String
                                                                ((Ascii
                                                                (false, true,
                                                                true, true,
                                                                false, true,
                                                                true,
                                                                false)),
                                                                (String
                                                                ((Ascii
                                                                (true, true,
                                                                true, false,
                                                                false, true,
                                                                true,
                                                                false)),
                                                                EmptyString))))))))))))) :: (
    (s_ (String ((Ascii (true, true, false, false, true, true, true, false)),
      (String ((Ascii (false, false, true, false, true, true, true, false)),
      (String ((Ascii (true, false, false, true, true, true, true, false)),
      (String ((Ascii (false, false, true, true, false, true, true, false)),
      (String ((Ascii (true, false, true, false, false, true, true, false)),
      EmptyString))))))))))) :: ((s_ (String ((Ascii (true, true, false,
                                   false, true, true, true, false)), (String
                                   ((Ascii (true, false, true, false, true,
                                   true, true, false)), (String ((Ascii
                                   (false, true, false, false, false, true,
                                   true, false)), EmptyString))))))) :: (
    (s_ (String ((Ascii (true, true, false, false, true, true, true, false)),
      (String ((Ascii (true, false, true, false, true, true, true, false)),
      (String ((Ascii (true, false, true, true, false, true, true, false)),
      (String ((Ascii (true, false, true, true, false, true, true, false)),
      (String ((Ascii (true, false, false, false, false, true, true, false)),
      (String ((Ascii (false, true, false, false, true, true, true, false)),
      (String ((Ascii (true, false, false, true, true, true, true, false)),
      EmptyString))))))))))))))) :: ((s_ (String ((Ascii (true, true, false,
                                       false, true, true, true, false)),
                                       (String ((Ascii (true, false, true,
                                       false, true, true, true, false)),
                                       (String ((Ascii (false, false, false,
                                       false, true, true, true, false)),
                                       EmptyString))))))) :: ((s_ (String
                                                                ((Ascii
                                                                (true, true,
                                                                false, false,
                                                                true, true,
                                                                true,
                                                                false)),
                                                                (String
                                                                ((Ascii
                                                                (false, true,
                                                                true, false,
                                                                true, true,
                                                                true,
                                                                false)),
                                                                (String
                                                                ((Ascii
                                                                (true, true,
                                                                true, false,
                                                                false, true,
                                                                true,
                                                                false)),
                                                                EmptyString))))))) :: (
    (s_ (String ((Ascii (false, false, true, false, true, true, true,
      false)), (String ((Ascii (true, false, false, false, false, true, true,
      false)), (String ((Ascii (false, true, false, false, false, true, true,
      false)), (String ((Ascii (false, false, true, true, false, true, true,
      false)), (String ((Ascii (true, false, true, false, false, true, true,
      false)), EmptyString))))))))))) :: ((s_ (String ((Ascii (false, false,
                                            true, false, true, true, true,
                                            false)), (String ((Ascii (false,
                                            true, false, false, false, true,
                                            true, false)), (String ((Ascii
                                            (true, true, true, true, false,
                                            true, true, false)), (String
                                            ((Ascii (false, false, true,
                                            false, false, true, true,
                                            false)), (String ((Ascii (true,
                                            false, false, true, true, true,
                                            true, false)),
                                            EmptyString))))))))))) :: (
    (s_ (String ((Ascii (false, false, true, false, true, true, true,
      false)), (String ((Ascii (false, false, true, false, false, true, true,
      false)), EmptyString))))) :: ((s_ (String ((Ascii (false, false, true,
                                      false, true, true, true, false)),
                                      (String ((Ascii (true, false, true,
                                      false, false, true, true, false)),
                                      (String ((Ascii (true, false, true,
                                      true, false, true, true, false)),
                                      (String ((Ascii (false, false, false,
                                      false, true, true, true, false)),
                                      (String ((Ascii (false, false, true,
                                      true, false, true, true, false)),
                                      (String ((Ascii (true, false, false,
                                      false, false, true, true, false)),
                                      (String ((Ascii (false, false, true,
                                      false, true, true, true, false)),
                                      (String ((Ascii (true, false, true,
                                      false, false, true, true, false)),
                                      EmptyString))))))))))))))))) :: (
    (s_ (String ((Ascii (false, false, true, false, true, true, true,
      false)), (String ((Ascii (true, false, true, false, false, true, true,
      false)), (String ((Ascii (false, false, false, true, true, true, true,
      false)), (String ((Ascii (false, false, true, false, true, true, true,
      false)), (String ((Ascii (true, false, false, false, false, true, true,
      false)), (String ((Ascii (false, true, false, false, true, true, true,
      false)), (String ((Ascii (true, false, true, false, false, true, true,
      false)), (String ((Ascii (true, false, false, false, false, true, true,
      false)), EmptyString))))))))))))))))) :: ((s_ (String ((Ascii (false,
                                                  false, true, false, true,
                                                  true, true, false)),
                                                  (String ((Ascii (false,
                                                  true, true, false, false,
                                                  true, true, false)),
                                                  (String ((Ascii (true,
                                                  true, true, true, false,
                                                  true, true, false)),
                                                  (String ((Ascii (true,
                                                  true, true, true, false,
                                                  true, true, false)),
                                                  (String ((Ascii (false,
                                                  false, true, false, true,
                                                  true, true, false)),
                                                  EmptyString))))))))))) :: (
    (s_ (String ((Ascii (false, false, true, false, true, true, true,
      false)), (String ((Ascii (false, false, false, true, false, true, true,
      false)), EmptyString))))) :: ((s_ (String ((Ascii (false, false, true,
                                      false, true, true, true, false)),
                                      (String ((Ascii (false, false, false,
                                      true, false, true, true, false)),
                                      (String ((Ascii (true, false, true,
                                      false, false, true, true, false)),
                                      (String ((Ascii (true, false, false,
                                      false, false, true, true, false)),
                                      (String ((Ascii (false, false, true,
                                      false, false, true, true, false)),
                                      EmptyString))))))))))) :: ((s_ (String
                                                                   ((Ascii
                                                                   (false,
                                                                   false,
                                                                   true,
                                                                   false,
                                                                   true,
                                                                   true,
                                                                   true,
                                                                   false)),
                                                                   (String
                                                                   ((Ascii
                                                                   (true,
                                                                   false,
                                                                   false,
                                                                   true,
                                                                   false,
                                                                   true,
                                                                   true,
                                                                   false)),
                                                                   (String
                                                                   ((Ascii
                                                                   (true,
                                                                   false,
                                                                   true,
                                                                   true,
                                                                   false,
                                                                   true,
                                                                   true,
                                                                   false)),
                                                                   (String
                                                                   ((Ascii
                                                                   (true,
                                                                   false,
                                                                   true,
                                                                   false,
                                                                   false,
                                                                   true,
                                                                   true,
                                                                   false)),
                                                                   EmptyString))))))))) :: (
    (s_ (String ((Ascii (false, false, true, false, true, true, true,
      false)), (String ((Ascii (true, false, false, true, false, true, true,
      false)), (String ((Ascii (false, false, true, false, true, true, true,
      false)), (String ((Ascii (false, false, true, true, false, true, true,
      false)), (String ((Ascii (true, false, true, false, false, true, true,
      false)), EmptyString))))))))))) :: ((s_ (String ((Ascii (false, false,
                                            true, false, true, true, true,
                                            false)), (String ((Ascii (false,
                                            true, false, false, true, true,
                                            true, false)), EmptyString))))) :: (
    (s_ (String ((Ascii (false, false, true, false, true, true, true,
      false)), (String ((Ascii (false, true, false, false, true, true, true,
      false)), (String ((Ascii (true, false, false, false, false, true, true,
      false)), (String ((Ascii (true, true, false, false, false, true, true,
      false)), (String ((Ascii (true, true, false, true, false, true, true,
      false)), EmptyString))))))))))) :: ((s_ (String ((Ascii (true, false,
                                            true, false, true, true, true,
                                            false)), EmptyString))) :: (
    (s_ (String ((Ascii (true, false, true, false, true, true, true, false)),
      (String ((Ascii (false, false, true, true, false, true, true, false)),
      EmptyString))))) :: ((s_ (String ((Ascii (false, true, true, false,
                             true, true, true, false)), (String ((Ascii
                             (true, false, false, false, false, true, true,
                             false)), (String ((Ascii (false, true, false,
                             false, true, true, true, false)),
                             EmptyString))))))) :: ((s_ (String ((Ascii
                                                      (false, true, true,
                                                      false, true, true,
                                                      true, false)), (String
                                                      ((Ascii (true, false,
                                                      false, true, false,
                                                      true, true, false)),
                                                      (String ((Ascii (false,
                                                      false, true, false,
                                                      false, true, true,
                                                      false)), (String
                                                      ((Ascii (true, false,
                                                      true, false, false,
                                                      true, true, false)),
                                                      (String ((Ascii (true,
                                                      true, true, true,
                                                      false, true, true,
                                                      false)),
                                                      EmptyString))))))))))) :: (
    (s_ (String ((Ascii (true, true, true, false, true, true, true, false)),
      (String ((Ascii (false, true, false, false, false, true, true, false)),
      (String ((Ascii (false, true, false, false, true, true, true, false)),
      EmptyString))))))) :: [])))))))))))))))))))))))))))))))))))))))))))))))))))))))))))))))))))))))))))))))))))))))))))))))))))))))))))))))))))))

(** val svg_tags : str list **)

let svg_tags =
  (s_ (String ((Ascii (true, false, false, false, false, true, true, false)),
    EmptyString))) :: ((s_ (String ((Ascii (true, false, false, false, false,
                         true, true, false)), (String ((Ascii (false, false,
                         true, true, false, true, true, false)), (String
                         ((Ascii (false, false, true, false, true, true,
                         true, false)), (String ((Ascii (true, true, true,
                         false, false, false, true, false)), (String ((Ascii
                         (false, false, true, true, false, true, true,
                         false)), (String ((Ascii (true, false, false, true,
                         true, true, true, false)), (String ((Ascii (false,
                         false, false, false, true, true, true, false)),
                         (String ((Ascii (false, false, false, true, false,
                         true, true, false)), EmptyString))))))))))))))))) :: (
    (s_ (String ((Ascii (true, false, false, false, false, true, true,
      false)), (String ((Ascii (false, false, true, true, false, true, true,
      false)), (String ((Ascii (false, false, true, false, true, true, true,
      false)), (String ((Ascii (true, true, true, false, false, false, true,
      false)), (String ((Ascii (false, false, true, true, false, true, true,
      false)), (String ((Ascii (true, false, false, true, true, true, true,
      false)), (String ((Ascii (false, false, false, false, true, true, true,
      false)), (String ((Ascii (false, false, false, true, false, true, true,
      false)), (String ((Ascii (false, false, true, false, false, false,
      true, false)), (String ((Ascii (true, false, true, false, false, true,
      true, false)), (String ((Ascii (false, true, true, false, false, true,
      true, false)), EmptyString))))))))))))))))))))))) :: ((s_ (String
                                                              ((Ascii (true,
                                                              false, false,
                                                              false, false,
                                                              true, true,
                                                              false)),
                                                              (String ((Ascii
                                                              (false, false,
                                                              true, true,
                                                              false, true,
                                                              true, false)),
                                                              (String ((Ascii
                                                              (false, false,
                                                              true, false,
                                                              true, true,
                                                              true, false)),
                                                              (String ((Ascii
                                                              (true, true,
                                                              true, false,
                                                              false, false,
                                                              true, false)),
                                                              (String ((Ascii
                                                              (false, false,
                                                              true, true,
                                                              false, true,
                                                              true, false)),
                                                              (String ((Ascii
                                                              (true, false,
                                                              false, true,
                                                              true, true,
                                                              true, false)),
                                                              (String ((Ascii
                                                              (false, false,
                                                              false, false,
                                                              true, true,
                                                              true, false)),
                                                              (String ((Ascii
                                                              (false, false,
                                                              false, true,
                                                              false, true,
                                                              true, false)),
                                                              (String ((Ascii
                                                              (true, false,
                                                              false, true,
                                                              false, false,
                                                              true, false)),
                                                              (String ((Ascii
                                                              (false, false,
                                                              true, false,
                                                              true, true,
                                                              true, false)),
                                                              (String ((Ascii
                                                              (true, false,
                                                              true, false,
                                                              false, true,
                                                              true, false)),
                                                              (String ((Ascii
                                                              (true, false,
                                                              true, true,
                                                              false, true,
                                                              true, false)),
                                                              EmptyString))))))))))))))))))))))))) :: (
    (s_ (String ((Ascii (true, false, false, false, false, true, true,
      false)), (String ((Ascii (false, true, true, true, false, true, true,
      false)), (String ((Ascii (true, false, false, true, false, true, true,
      false)), (String ((Ascii (true, false, true, true, false, true, true,
      false)), (String ((Ascii (true, false, false, false, false, true, true,
      false)), (String ((Ascii (false, false, true, false, true, true, true,
      false)), (String ((Ascii (true, false, true, false, false, true, true,
      false)), EmptyString))))))))))))))) :: ((s_ (String ((Ascii (true,
                                                false, false, false, false,
                                                true, true, false)), (String
                                                ((Ascii (false, true, true,
                                                true, false, true, true,
                                                false)), (String ((Ascii
                                                (true, false, false, true,
                                                false, true, true, false)),
                                                (String ((Ascii (true, false,
                                                true, true, false, true,
                                                true, false)), (String
                                                ((Ascii (true, false, false,
                                                false, false, true, true,
                                                false)), (String ((Ascii
                                                (false, false, true, false,
                                                true, true, true, false)),
                                                (String ((Ascii (true, false,
                                                true, false, false, true,
                                                true, false)), (String
                                                ((Ascii (true, true, false,
                                                false, false, false, true,
                                                false)), (String ((Ascii
                                                (true, true, true, true,
                                                false, true, true, false)),
                                                (String ((Ascii (false,
                                                false, true, true, false,
                                                true, true, false)), (String
                                                ((Ascii (true, true, true,
                                                true, false, true, true,
                                                false)), (String ((Ascii
                                                (false, true, false, false,
                                                true, true, true, false)),
                                                EmptyString))))))))))))))))))))))))) :: (
    (s_ (String ((Ascii (true, false, false, false, false, true, true,
      false)), (String ((Ascii (false, true, true, true, false, true, true,
      false)), (String ((Ascii (true, false, false, true, false, true, true,
      false)), (String ((Ascii (true, false, true, true, false, true, true,
      false)), (String ((Ascii (true, false, false, false, false, true, true,
      false)), (String ((Ascii (false, false, true, false, true, true, true,
      false)), (String ((Ascii (true, false, true, false, false, true, true,
      false)), (String ((Ascii (true, false, true, true, false, false, true,
      false)), (String ((Ascii (true, true, true, true, false, true, true,
      false)), (String ((Ascii (false, false, true, false, true, true, true,
      false)), (String ((Ascii (true, false, false, true, false, true, true,
      false)), (String ((Ascii (true, true, true, true, false, true, true,
      false)), (String ((Ascii (false, true, true, true, false, true, true,
      false)), EmptyString))))))))))))))))))))))))))) :: ((s_ (String ((Ascii
                                                            (true, false,
                                                            false, false,
                                                            false, true,
                                                            true, false)),
                                                            (String ((Ascii
                                                            (false, true,
                                                            true, true,
                                                            false, true,
                                                            true, false)),
                                                            (String ((Ascii
                                                            (true, false,
                                                            false, true,
                                                            false, true,
                                                            true, false)),
                                                            (String ((Ascii
                                                            (true, false,
                                                            true, true,
                                                            false, true,
                                                            true, false)),
                                                            (String ((Ascii
                                                            (true, false,
                                                            false, false,
                                                            false, true,
                                                            true, false)),
                                                            (String ((Ascii
                                                            (false, false,
                                                            true, false,
                                                            true, true, true,
                                                            false)), (String
                                                            ((Ascii (true,
                                                            false, true,
                                                            false, false,
                                                            true, true,
                                                            false)), (String
                                                            ((Ascii (false,
                                                            false, true,
                                                            false, true,
                                                            false, true,
                                                            false)), (String
                                                            ((Ascii (false,
                                                            true, false,
                                                            false, true,
                                                            true, true,
                                                            false)), (String
                                                            ((Ascii (true,
                                                            false, false,
                                                            false, false,
                                                            true, true,
                                                            false)), (String
                                                            ((Ascii (false,
                                                            true, true, true,
                                                            false, true,
                                                            true, false)),
                                                            (String ((Ascii
                                                            (true, true,
                                                            false, false,
                                                            true, true, true,
                                                            false)), (String
                                                            ((Ascii (false,
                                                            true, true,
                                                            false, false,
                                                            true, true,
                                                            false)), (String
                                                            ((Ascii (true,
                                                            true, true, true,
                                                            false, true,
                                                            true, false)),
                                                            (String ((Ascii
                                                            (false, true,
                                                            false, false,
                                                            true, true, true,
                                                            false)), (String
                                                            ((Ascii (true,
                                                            false, true,
                                                            true, false,
                                                            true, true,
                                                            false)),
                                                            EmptyString))))))))))))))))))))))))))))))))) :: (
    (s_ (String ((Ascii (true, true, false, false, false, true, true,
      false)), (String ((Ascii (true, false, false, true, false, true, true,
      false)), (String ((Ascii (false, true, false, false, true, true, true,
      false)), (String ((Ascii (true, true, false, false, false, true, true,
      false)), (String ((Ascii (false, false, true, true, false, true, true,
      false)), (String ((Ascii (true, false, true, false, false, true, true,
      false)), EmptyString))))))))))))) :: ((s_ (String ((Ascii (true, true,
                                              false, false, false, true,
                                              true, false)), (String ((Ascii
                                              (false, false, true, true,
                                              false, true, true, false)),
                                              (String ((Ascii (true, false,
                                              false, true, false, true, true,
                                              false)), (String ((Ascii
                                              (false, false, false, false,
                                              true, true, true, false)),
                                              (String ((Ascii (false, false,
                                              false, false, true, false,
                                              true, false)), (String ((Ascii
                                              (true, false, false, false,
                                              false, true, true, false)),
                                              (String ((Ascii (false, false,
                                              true, false, true, true, true,
                                              false)), (String ((Ascii
                                              (false, false, false, true,
                                              false, true, true, false)),
                                              EmptyString))))))))))))))))) :: (
    (s_ (String ((Ascii (true, true, false, false, false, true, true,
      false)), (String ((Ascii (true, true, true, true, false, true, true,
      false)), (String ((Ascii (false, false, true, true, false, true, true,
      false)), (String ((Ascii (true, true, true, true, false, true, true,
      false)), (String ((Ascii (false, true, false, false, true, true, true,
      false)), (String ((Ascii (true, false, true, true, false, true, false,
      false)), (String ((Ascii (false, false, false, false, true, true, true,
      false)), (String ((Ascii (false, true, false, false, true, true, true,
      false)), (String ((Ascii (true, true, true, true, false, true, true,
      false)), (String ((Ascii (false, true, true, false, false, true, true,
      false)), (String ((Ascii (true, false, false, true, false, true, true,
      false)), (String ((Ascii (false, false, true, true, false, true, true,
      false)), (String ((Ascii (true, false, true, false, false, true, true,
      false)), EmptyString))))))))))))))))))))))))))) :: ((s_ (String ((Ascii
                                                            (true, true,
                                                            false, false,
                                                            false, true,
                                                            true, false)),
                                                            (String ((Ascii
                                                            (true, false,
                                                            true, false,
                                                            true, true, true,
                                                            false)), (String
                                                            ((Ascii (false,
                                                            true, false,
                                                            false, true,
                                                            true, true,
                                                            false)), (String
                                                            ((Ascii (true,
                                                            true, false,
                                                            false, true,
                                                            true, true,
                                                            false)), (String
                                                            ((Ascii (true,
                                                            true, true, true,
                                                            false, true,
                                                            true, false)),
                                                            (String ((Ascii
                                                            (false, true,
                                                            false, false,
                                                            true, true, true,
                                                            false)),
                                                            EmptyString))))))))))))) :: (
    (s_ (String ((Ascii (false, false, true, false, false, true, true,
      false)), (String ((Ascii (true, false, true, false, false, true, true,
      false)), (String ((Ascii (false, true, true, false, false, true, true,
      false)), (String ((Ascii (true, true, false, false, true, true, true,
      false)), EmptyString))))))))) :: ((s_ (String ((Ascii (false, false,
                                          true, false, false, true, true,
                                          false)), (String ((Ascii (true,
                                          false, true, false, false, true,
                                          true, false)), (String ((Ascii
                                          (true, true, false, false, true,
                                          true, true, false)), (String
                                          ((Ascii (true, true, false, false,
                                          false, true, true, false)),
                                          EmptyString))))))))) :: ((s_
                                                                    (String
                                                                    ((Ascii
                                                                    (true,
                                                                    false,
                                                                    true,
                                                                    false,
                                                                    false,
                                                                    true,
                                                                    true,
                                                                    false)),
                                                                    (String
                                                                    ((Ascii
                                                                    (false,
                                                                    false,
                                                                    true,
                                                                    true,
                                                                    false,
                                                                    true,
                                                                    true,
                                                                    false)),
                                                                    (String
                                                                    ((Ascii
                                                                    (false,
                                                                    false,
                                                                    true,
                                                                    true,
                                                                    false,
                                                                    true,
                                                                    true,
                                                                    false)),
                                                                    (String
                                                                    ((Ascii
                                                                    (true,
                                                                    false,
                                                                    false,
                                                                    true,
                                                                    false,
                                                                    true,
                                                                    true,
                                                                    false)),
                                                                    (String
                                                                    ((Ascii
                                                                    (false,
                                                                    false,
                                                                    false,
                                                                    false,
                                                                    true,
                                                                    true,
                                                                    true,
                                                                    false)),
                                                                    (String
                                                                    ((Ascii
                                                                    (true,
                                                                    true,
                                                                    false,
                                                                    false,
                                                                    true,
                                                                    true,
                                                                    true,
                                                                    false)),
                                                                    (String
                                                                    ((Ascii
                                                                    (true,
                                                                    false,
                                                                    true,
                                                                    false,
                                                                    false,
                                                                    true,
                                                                    true,
                                                                    false)),
                                                                    EmptyString))))))))))))))) :: (
    (s_ (String ((Ascii (false, true, true, false, false, true, true,
      false)), (String ((Ascii (true, false, true, false, false, true, true,
      false)), (String ((Ascii (false, true, false, false, false, false,
      true, false)), (String ((Ascii (false, false, true, true, false, true,
      true, false)), (String ((Ascii (true, false, true, false, false, true,
      true, false)), (String ((Ascii (false, true, true, true, false, true,
      true, false)), (String ((Ascii (false, false, true, false, false, true,
      true, false)), EmptyString))))))))))))))) :: ((s_ (String ((Ascii
                                                      (false, true, true,
                                                      false, false, true,
                                                      true, false)), (String
                                                      ((Ascii (true, false,
                                                      true, false, false,
                                                      true, true, false)),
                                                      (String ((Ascii (true,
                                                      true, false, false,
                                                      false, false, true,
                                                      false)), (String
                                                      ((Ascii (true, true,
                                                      true, true, false,
                                                      true, true, false)),
                                                      (String ((Ascii (false,
                                                      false, true, true,
                                                      false, true, true,
                                                      false)), (String
                                                      ((Ascii (true, true,
                                                      true, true, false,
                                                      true, true, false)),
                                                      (String ((Ascii (false,
                                                      true, false, false,
                                                      true, true, true,
                                                      false)), (String
                                                      ((Ascii (true, false,
                                                      true, true, false,
                                                      false, true, false)),
                                                      (String ((Ascii (true,
                                                      false, false, false,
                                                      false, true, true,
                                                      false)), (String
                                                      ((Ascii (false, false,
                                                      true, false, true,
                                                      true, true, false)),
                                                      (String ((Ascii (false,
                                                      true, false, false,
                                                      true, true, true,
                                                      false)), (String
                                                      ((Ascii (true, false,
                                                      false, true, false,
                                                      true, true, false)),
                                                      (String ((Ascii (false,
                                                      false, false, true,
                                                      true, true, true,
                                                      false)),
                                                      EmptyString))))))))))))))))))))))))))) :: (
    (s_ (String ((Ascii (false, true, true, false, false, true, true,
      false)), (String ((Ascii (true, false, true, false, false, true, true,
      false)), (String ((Ascii (true, true, false, false, false, false, true,
      false)), (String ((Ascii (true, true, true, true, false, true, true,
      false)), (String ((Ascii (true, false, true, true, false, true, true,
      false)), (String ((Ascii (false, false, false, false, true, true, true,
      false)), (String ((Ascii (true, true, true, true, false, true, true,
      false)), (String ((Ascii (false, true, true, true, false, true, true,
      false)), (String ((Ascii (true, false, true, false, false, true, true,
      false)), (String ((Ascii (false, true, true, true, false, true, true,
      false)), (String ((Ascii (false, false, true, false, true, true, true,
      false)), (String ((Ascii (false, false, true, false, true, false, true,
      false)), (String ((Ascii (false, true, false, false, true, true, true,
      false)), (String ((Ascii (true, false, false, false, false, true, true,
      false)), (String ((Ascii (false, true, true, true, false, true, true,
      false)), (String ((Ascii (true, true, false, false, true, true, true,
      false)), (String ((Ascii (false, true, true, false, false, true, true,
      false)), (String ((Ascii (true, false, true, false, false, true, true,
      false)), (String ((Ascii (false, true, false, false, true, true, true,
      false)), EmptyString))))))))))))))))))))))))))))))))))))))) :: (
    (s_ (String ((Ascii (false, true, true, false, false, true, true,
      false)), (String ((Ascii (true, false, true, false, false, true, true,
      false)), (String ((Ascii (true, true, false, false, false, false, true,
      false)), (String ((Ascii (true, true, true, true, false, true, true,
      false)), (String ((Ascii (true, false, true, true, false, true, true,
      false)), (String ((Ascii (false, false, false, false, true, true, true,
      false)), (String ((Ascii (true, true, true, true, false, true, true,
      false)), (String ((Ascii (true, true, false, false, true, true, true,
      false)), (String ((Ascii (true, false, false, true, false, true, true,
      false)), (String ((Ascii (false, false, true, false, true, true, true,
      false)), (String ((Ascii (true, false, true, false, false, true, true,
      false)), EmptyString))))))))))))))))))))))) :: ((s_ (String ((Ascii
                                                        (false, true, true,
                                                        false, false, true,
                                                        true, false)),
                                                        (String ((Ascii
                                                        (true, false, true,
                                                        false, false, true,
                                                        true, false)),
                                                        (String ((Ascii
                                                        (true, true, false,
                                                        false, false, false,
                                                        true, false)),
                                                        (String ((Ascii
                                                        (true, true, true,
                                                        true, false, true,
                                                        true, false)),
                                                        (String ((Ascii
                                                        (false, true, true,
                                                        true, false, true,
                                                        true, false)),
                                                        (String ((Ascii
                                                        (false, true, true,
                                                        false, true, true,
                                                        true, false)),
                                                        (String ((Ascii
                                                        (true, true, true,
                                                        true, false, true,
                                                        true, false)),
                                                        (String ((Ascii
                                                        (false, false, true,
                                                        true, false, true,
                                                        true, false)),
                                                        (String ((Ascii
                                                        (false, true, true,
                                                        false, true, true,
                                                        true, false)),
                                                        (String ((Ascii
                                                        (true, false, true,
                                                        false, false, true,
                                                        true, false)),
                                                        (String ((Ascii
                                                        (true, false, true,
                                                        true, false, false,
                                                        true, false)),
                                                        (String ((Ascii
                                                        (true, false, false,
                                                        false, false, true,
                                                        true, false)),
                                                        (String ((Ascii
                                                        (false, false, true,
                                                        false, true, true,
                                                        true, false)),
                                                        (String ((Ascii
                                                        (false, true, false,
                                                        false, true, true,
                                                        true, false)),
                                                        (String ((Ascii
                                                        (true, false, false,
                                                        true, false, true,
                                                        true, false)),
                                                        (String ((Ascii
                                                        (false, false, false,
                                                        true, true, true,
                                                        true, false)),
                                                        EmptyString))))))))))))))))))))))))))))))))) :: (
    (s_ (String ((Ascii (false, true, true, false, false, true, true,
      false)), (String ((Ascii (true, false, true, false, false, true, true,
      false)), (String ((Ascii (false, false, true, false, false, false,
      true, false)), (String ((Ascii (true, false, false, true, false, true,
      true, false)), (String ((Ascii (false, true, true, false, false, true,
      true, false)), (String ((Ascii (false, true, true, false, false, true,
      true, false)), (String ((Ascii (true, false, true, false, true, true,
      true, false)), (String ((Ascii (true, true, false, false, true, true,
      true, false)), (String ((Ascii (true, false, true, false, false, true,
      true, false)), (String ((Ascii (false, false, true, true, false, false,
      true, false)), (String ((Ascii (true, false, false, true, false, true,
      true, false)), (String ((Ascii (true, true, true, false, false, true,
      true, false)), (String ((Ascii (false, false, false, true, false, true,
      true, false)), (String ((Ascii (false, false, true, false, true, true,
      true, false)), (String ((Ascii (true, false, false, true, false, true,
      true, false)), (String ((Ascii (false, true, true, true, false, true,
      true, false)), (String ((Ascii (true, true, true, false, false, true,
      true, false)), EmptyString))))))))))))))))))))))))))))))))))) :: (
    (s_ (String ((Ascii (false, true, true, false, false, true, true,
      false)), (String ((Ascii (true, false, true, false, false, true, true,
      false)), (String ((Ascii (false, false, true, false, false, false,
      true, false)), (String ((Ascii (true, false, false, true, false, true,
      true, false)), (String ((Ascii (true, true, false, false, true, true,
      true, false)), (String ((Ascii (false, false, false, false, true, true,
      true, false)), (String ((Ascii (false, false, true, true, false, true,
      true, false)), (String ((Ascii (true, false, false, false, false, true,
      true, false)), (String ((Ascii (true, true, false, false, false, true,
      true, false)), (String ((Ascii (true, false, true, false, false, true,
      true, false)), (String ((Ascii (true, false, true, true, false, true,
      true, false)), (String ((Ascii (true, false, true, false, false, true,
      true, false)), (String ((Ascii (false, true, true, true, false, true,
      true, false)), (String ((Ascii (false, false, true, false, true, true,
      true, false)), (String ((Ascii (true, false, true, true, false, false,
      true, false)), (String ((Ascii (true, false, false, false, false, true,
      true, false)), (String ((Ascii (false, false, false, false, true, true,
      true, false)), EmptyString))))))))))))))))))))))))))))))))))) :: (
    (s_ (String ((Ascii (false, true, true, false, false, true, true,
      false)), (String ((Ascii (true, false, true, false, false, true, true,
      false)), (String ((Ascii (false, false, true, false, false, false,
      true, false)), (String ((Ascii (true, false, false, true, false, true,
      true, false)), (String ((Ascii (true, true, false, false, true, true,
      true, false)), (String ((Ascii (false, false, true, false, true, true,
      true, false)), (String ((Ascii (true, false, false, false, false, true,
      true, false)), (String ((Ascii (false, true, true, true, false, true,
      true, false)), (String ((Ascii (false, false, true, false, true, true,
      true, false)), (String ((Ascii (false, false, true, true, false, false,
      true, false)), (String ((Ascii (true, false, false, true, false, true,
      true, false)), (String ((Ascii (true, true, true, false, false, true,
      true, false)), (String ((Ascii (false, false, false, true, false, true,
      true, false)), (String ((Ascii (false, false, true, false, true, true,
      true, false)), EmptyString))))))))))))))))))))))))))))) :: ((s_ (String
                                                                    ((Ascii
                                                                    (false,
                                                                    true,
                                                                    true,
                                                                    false,
                                                                    false,
                                                                    true,
                                                                    true,
                                                                    false)),
                                                                    (String
                                                                    ((Ascii
                                                                    (true,
                                                                    false,
                                                                    true,
                                                                    false,
                                                                    false,
                                                                    true,
                                                                    true,
                                                                    false)),
                                                                    (String
                                                                    ((Ascii
                                                                    (false,
                                                                    true,
                                                                    true,
                                                                    false,
                                                                    false,
                                                                    false,
                                                                    true,
                                                                    false)),
                                                                    (String
                                                                    ((Ascii
                                                                    (false,
                                                                    false,
                                                                    true,
                                                                    true,
                                                                    false,
                                                                    true,
                                                                    true,
                                                                    false)),
                                                                    (String
                                                                    ((Ascii
                                                                    (true,
                                                                    true,
                                                                    true,
                                                                    true,
                                                                    false,
                                                                    true,
                                                                    true,
                                                                    false)),
                                                                    (String
                                                                    ((Ascii
                                                                    (true,
                                                                    true,
                                                                    true,
                                                                    true,
                                                                    false,
                                                                    true,
                                                                    true,
                                                                    false)),
                                                                    (String
                                                                    ((Ascii
                                                                    (false,
                                                                    false,
                                                                    true,
                                                                    false,
                                                                    false,
                                                                    true,
                                                                    true,
                                                                    false)),
                                                                    EmptyString))))))))))))))) :: (
    (s_ (String ((Ascii (false, true, true, false, false, true, true,
      false)), (String ((Ascii (true, false, true, false, false, true, true,
      false)), (String ((Ascii (false, true, true, false, false, false, true,
      false)), (String ((Ascii (true, false, true, false, true, true, true,
      false)), (String ((Ascii (false, true, true, true, false, true, true,
      false)), (String ((Ascii (true, true, false, false, false, true, true,
      false)), (String ((Ascii (true, false, false, false, false, false,
      true, false)), EmptyString))))))))))))))) :: ((s_ (String ((Ascii
                                                      (false, true, true,
                                                      false, false, true,
                                                      true, false)), (String
                                                      ((Ascii (true, false,
                                                      true, false, false,
                                                      true, true, false)),
                                                      (String ((Ascii (false,
                                                      true, true, false,
                                                      false, false, true,
                                                      false)), (String
                                                      ((Ascii (true, false,
                                                      true, false, true,
                                                      true, true, false)),
                                                      (String ((Ascii (false,
                                                      true, true, true,
                                                      false, true, true,
                                                      false)), (String
                                                      ((Ascii (true, true,
                                                      false, false, false,
                                                      true, true, false)),
                                                      (String ((Ascii (false,
                                                      true, false, false,
                                                      false, false, true,
                                                      false)),
                                                      EmptyString))))))))))))))) :: (
    (s_ (String ((Ascii (false, true, true, false, false, true, true,
      false)), (String ((Ascii (true, false, true, false, false, true, true,
      false)), (String ((Ascii (false, true, true, false, false, false, true,
      false)), (String ((Ascii (true, false, true, false, true, true, true,
      false)), (String ((Ascii (false, true, true, true, false, true, true,
      false)), (String ((Ascii (true, true, false, false, false, true, true,
      false)), (String ((Ascii (true, true, true, false, false, false, true,
      false)), EmptyString))))))))))))))) :: ((s_ (String ((Ascii (false,
                                                true, true, false, false,
                                                true, true, false)), (String
                                                ((Ascii (true, false, true,
                                                false, false, true, true,
                                                false)), (String ((Ascii
                                                (false, true, true, false,
                                                false, false, true, false)),
                                                (String ((Ascii (true, false,
                                                true, false, true, true,
                                                true, false)), (String
                                                ((Ascii (false, true, true,
                                                true, false, true, true,
                                                false)), (String ((Ascii
                                                (true, true, false, false,
                                                false, true, true, false)),
                                                (String ((Ascii (false, true,
                                                false, false, true, false,
                                                true, false)),
                                                EmptyString))))))))))))))) :: (
    (s_ (String ((Ascii (false, true, true, false, false, true, true,
      false)), (String ((Ascii (true, false, true, false, false, true, true,
      false)), (String ((Ascii (true, true, true, false, false, false, true,
      false)), (String ((Ascii (true, false, false, false, false, true, true,
      false)), (String ((Ascii (true, false, true, false, true, true, true,
      false)), (String ((Ascii (true, true, false, false, true, true, true,
      false)), (String ((Ascii (true, true, false, false, true, true, true,
      false)), (String ((Ascii (true, false, false, true, false, true, true,
      false)), (String ((Ascii (true, false, false, false, false, true, true,
      false)), (String ((Ascii (false, true, true, true, false, true, true,
      false)), (String ((Ascii (false, true, false, false, false, false,
      true, false)), (String ((Ascii (false, false, true, true, false, true,
      true, false)), (String ((Ascii (true, false, true, false, true, true,
      true, false)), (String ((Ascii (false, true, false, false, true, true,
      true, false)), EmptyString))))))))))))))))))))))))))))) :: ((s_ (String
                                                                    ((Ascii
                                                                    (false,
                                                                    true,
                                                                    true,
                                                                    false,
                                                                    false,
                                                                    true,
                                                                    true,
                                                                    false)),
                                                                    (String
                                                                    ((Ascii
                                                                    (true,
                                                                    false,
                                                                    true,
                                                                    false,
                                                                    false,
                                                                    true,
                                                                    true,
                                                                    false)),
                                                                    (String
                                                                    ((Ascii
                                                                    (true,
                                                                    false,
                                                                    false,
                                                                    true,
                                                                    false,
                                                                    false,
                                                                    true,
                                                                    false)),
                                                                    (String
                                                                    ((Ascii
                                                                    (true,
                                                                    false,
                                                                    true,
                                                                    true,
                                                                    false,
                                                                    true,
                                                                    true,
                                                                    false)),
                                                                    (String
                                                                    ((Ascii
                                                                    (true,
                                                                    false,
                                                                    false,
                                                                    false,
                                                                    false,
                                                                    true,
                                                                    true,
                                                                    false)),
                                                                    (String
                                                                    ((Ascii
                                                                    (true,
                                                                    true,
                                                                    true,
                                                                    false,
                                                                    false,
                                                                    true,
                                                                    true,
                                                                    false)),
                                                                    (String
                                                                    ((Ascii
                                                                    (true,
                                                                    false,
                                                                    true,
                                                                    false,
                                                                    false,
                                                                    true,
                                                                    true,
                                                                    false)),
                                                                    EmptyString))))))))))))))) :: (
    (s_ (String ((Ascii (false, true, true, false, false, true, true,
      false)), (String ((Ascii (true, false, true, false, false, true, true,
      false)), (String ((Ascii (true, false, true, true, false, false, true,
      false)), (String ((Ascii (true, false, true, false, false, true, true,
      false)), (String ((Ascii (false, true, false, false, true, true, true,
      false)), (String ((Ascii (true, true, true, false, false, true, true,
      false)), (String ((Ascii (true, false, true, false, false, true, true,
      false)), EmptyString))))))))))))))) :: ((s_ (String ((Ascii (false,
                                                true, true, false, false,
                                                true, true, false)), (String
                                                ((Ascii (true, false, true,
                                                false, false, true, true,
                                                false)), (String ((Ascii
                                                (true, false, true, true,
                                                false, false, true, false)),
                                                (String ((Ascii (true, false,
                                                true, false, false, true,
                                                true, false)), (String
                                                ((Ascii (false, true, false,
                                                false, true, true, true,
                                                false)), (String ((Ascii
                                                (true, true, true, false,
                                                false, true, true, false)),
                                                (String ((Ascii (true, false,
                                                true, false, false, true,
                                                true, false)), (String
                                                ((Ascii (false, true, true,
                                                true, false, false, true,
                                                false)), (String ((Ascii
                                                (true, true, true, true,
                                                false, true, true, false)),
                                                (String ((Ascii (false,
                                                false, true, false, false,
                                                true, true, false)), (String
                                                ((Ascii (true, false, true,
                                                false, false, true, true,
                                                false)),
                                                EmptyString))))))))))))))))))))))) :: (
    (s_ (String ((Ascii (false, true, true, false, false, true, true,
      false)), (String ((Ascii (true, false, true, false, false, true, true,
      false)), (String ((Ascii (true, false, true, true, false, false, true,
      false)), (String ((Ascii (true, true, true, true, false, true, true,
      false)), (String ((Ascii (false, true, false, false, true, true, true,
      false)), (String ((Ascii (false, false, false, false, true, true, true,
      false)), (String ((Ascii (false, false, false, true, false, true, true,
      false)), (String ((Ascii (true, true, true, true, false, true, true,
      false)), (String ((Ascii (false, false, true, true, false, true, true,
      false)), (String ((Ascii (true, true, true, true, false, true, true,
      false)), (String ((Ascii (true, true, true, false, false, true, true,
      false)), (String ((Ascii (true, false, false, true, true, true, true,
      false)), EmptyString))))))))))))))))))))))))) :: ((s_ (String ((Ascii
                                                          (false, true, true,
                                                          false, false, true,
                                                          true, false)),
                                                          (String ((Ascii
                                                          (true, false, true,
                                                          false, false, true,
                                                          true, false)),
                                                          (String ((Ascii
                                                          (true, true, true,
                                                          true, false, false,
                                                          true, false)),
                                                          (String ((Ascii
                                                          (false, true, true,
                                                          false, false, true,
                                                          true, false)),
                                                          (String ((Ascii
                                                          (false, true, true,
                                                          false, false, true,
                                                          true, false)),
                                                          (String ((Ascii
                                                          (true, true, false,
                                                          false, true, true,
                                                          true, false)),
                                                          (String ((Ascii
                                                          (true, false, true,
                                                          false, false, true,
                                                          true, false)),
                                                          (String ((Ascii
                                                          (false, false,
                                                          true, false, true,
                                                          true, true,
                                                          false)),
                                                          EmptyString))))))))))))))))) :: (
    (s_ (String ((Ascii (false, true, true, false, false, true, true,
      false)), (String ((Ascii (true, false, true, false, false, true, true,
      false)), (String ((Ascii (false, false, false, false, true, false,
      true, false)), (String ((Ascii (true, true, true, true, false, true,
      true, false)), (String ((Ascii (true, false, false, true, false, true,
      true, false)), (String ((Ascii (false, true, true, true, false, true,
      true, false)), (String ((Ascii (false, false, true, false, true, true,
      true, false)), (String ((Ascii (false, false, true, true, false, false,
      true, false)), (String ((Ascii (true, false, false, true, false, true,
      true, false)), (String ((Ascii (true, true, true, false, false, true,
      true, false)), (String ((Ascii (false, false, false, true, false, true,
      true, false)), (String ((Ascii (false, false, true, false, true, true,
      true, false)), EmptyString))))))))))))))))))))))))) :: ((s_ (String
                                                                ((Ascii
                                                                (false, true,
                                                                true, false,
                                                                false, true,
                                                                true,
                                                                false)),
                                                                (String
                                                                ((Ascii
                                                                (true, false,
                                                                true, false,
                                                                false, true,
                                                                true,
                                                                false)),
                                                                (String
                                                                ((Ascii
                                                                (true, true,
                                                                false, false,
                                                                true, false,
                                                                true,
                                                                false)),
                                                                (String
                                                                ((Ascii
                                                                (false,
                                                                false, false,
                                                                false, true,
                                                                true, true,
                                                                false)),
                                                                (String
                                                                ((Ascii
                                                                (true, false,
                                                                true, false,
                                                                false, true,
                                                                true,
                                                                false)),
                                                                (String
                                                                ((Ascii
                                                                (true, true,
                                                                false, false,
                                                                false, true,
                                                                true,
                                                                false)),
                                                                (String
                                                                ((Ascii
                                                                (true, false,
                                                                true, false,
                                                                true, true,
                                                                true,
                                                                false)),
                                                                (String
                                                                ((Ascii
                                                                (false,
                                                                false, true,
                                                                true, false,
                                                                true, true,
                                                                false)),
                                                                (String
                                                                ((Ascii
                                                                (true, false,
                                                                false, false,
                                                                false, true,
                                                                true,
                                                                false)),
                                                                (String
                                                                ((Ascii
                                                                (false, true,
                                                                false, false,
                                                                true, true,
                                                                true,
                                                                false)),
                                                                (String
                                                                ((Ascii
                                                                (false,
                                                                false, true,
                                                                true, false,
                                                                false, true,
                                                                false)),
                                                                (String
                                                                ((Ascii
                                                                (true, false,
                                                                false, true,
                                                                false, true,
                                                                true,
                                                                false)),
                                                                (String
                                                                ((Ascii
                                                                (true, true,
                                                                true, false,
                                                                false, true,
                                                                true,
                                                                false)),
                                                                (String
                                                                ((Ascii
                                                                (false,
                                                                false, false,
                                                                true, false,
                                                                true, true,
                                                                false)),
                                                                (String
                                                                ((Ascii
                                                                (false,
                                                                false, true,
                                                                false, true,
                                                                true, true,
                                                                false)),
                                                                (String
                                                                ((Ascii
                                                                (true, false,
                                                                false, true,
                                                                false, true,
                                                                true,
                                                                false)),
                                                                (String
                                                                ((Ascii
                                                                (false, true,
                                                                true, true,
                                                                false, true,
                                                                true,
                                                                false)),
                                                                (String
                                                                ((Ascii
                                                                (true, true,
                                                                true, false,
                                                                false, true,
                                                                true,
                                                                false)),
                                                                EmptyString))))))))))))))))))))))))))))))))))))) :: (
    (s_ (String ((Ascii (false, true, true, false, false, true, true,
      false)), (String ((Ascii (true, false, true, false, false, true, true,
      false)), (String ((Ascii (true, true, false, false, true, false, true,
      false)), (String ((Ascii (false, false, false, false, true, true, true,
      false)), (String ((Ascii (true, true, true, true, false, true, true,
      false)), (String ((Ascii (false, false, true, false, true, true, true,
      false)), (String ((Ascii (false, false, true, true, false, false, true,
      false)), (String ((Ascii (true, false, false, true, false, true, true,
      false)), (String ((Ascii (true, true, true, false, false, true, true,
      false)), (String ((Ascii (false, false, false, true, false, true, true,
      false)), (String ((Ascii (false, false, true, false, true, true, true,
      false)), EmptyString))))))))))))))))))))))) :: ((s_ (String ((Ascii
                                                        (false, true, true,
                                                        false, false, true,
                                                        true, false)),
                                                        (String ((Ascii
                                                        (true, false, true,
                                                        false, false, true,
                                                        true, false)),
                                                        (String ((Ascii
                                                        (false, false, true,
                                                        false, true, false,
                                                        true, false)),
                                                        (String ((Ascii
                                                        (true, false, false,
                                                        true, false, true,
                                                        true, false)),
                                                        (String ((Ascii
                                                        (false, false, true,
                                                        true, false, true,
                                                        true, false)),
                                                        (String ((Ascii
                                                        (true, false, true,
                                                        false, false, true,
                                                        true, false)),
                                                        EmptyString))))))))))))) :: (
    (s_ (String ((Ascii (false, true, true, false, false, true, true,
      false)), (String ((Ascii (true, false, true, false, false, true, true,
      false)), (String ((Ascii (false, false, true, false, true, false, true,
      false)), (String ((Ascii (true, false, true, false, true, true, true,
      false)), (String ((Ascii (false, true, false, false, true, true, true,
      false)), (String ((Ascii (false, true, false, false, false, true, true,
      false)), (String ((Ascii (true, false, true, false, true, true, true,
      false)), (String ((Ascii (false, false, true, true, false, true, true,
      false)), (String ((Ascii (true, false, true, false, false, true, true,
      false)), (String ((Ascii (false, true, true, true, false, true, true,
      false)), (String ((Ascii (true, true, false, false, false, true, true,
      false)), (String ((Ascii (true, false, true, false, false, true, true,
      false)), EmptyString))))))))))))))))))))))))) :: ((s_ (String ((Ascii
                                                          (false, true, true,
                                                          false, false, true,
                                                          true, false)),
                                                          (String ((Ascii
                                                          (true, false,
                                                          false, true, false,
                                                          true, true,
                                                          false)), (String
                                                          ((Ascii (false,
                                                          false, true, true,
                                                          false, true, true,
                                                          false)), (String
                                                          ((Ascii (false,
                                                          false, true, false,
                                                          true, true, true,
                                                          false)), (String
                                                          ((Ascii (true,
                                                          false, true, false,
                                                          false, true, true,
                                                          false)), (String
                                                          ((Ascii (false,
                                                          true, false, false,
                                                          true, true, true,
                                                          false)),
                                                          EmptyString))))))))))))) :: (
    (s_ (String ((Ascii (false, true, true, false, false, true, true,
      false)), (String ((Ascii (true, true, true, true, false, true, true,
      false)), (String ((Ascii (false, true, true, true, false, true, true,
      false)), (String ((Ascii (false, false, true, false, true, true, true,
      false)), EmptyString))))))))) :: ((s_ (String ((Ascii (false, true,
                                          true, false, false, true, true,
                                          false)), (String ((Ascii (true,
                                          true, true, true, false, true,
                                          true, false)), (String ((Ascii
                                          (false, true, true, true, false,
                                          true, true, false)), (String
                                          ((Ascii (false, false, true, false,
                                          true, true, true, false)), (String
                                          ((Ascii (true, false, true, true,
                                          false, true, false, false)),
                                          (String ((Ascii (false, true, true,
                                          false, false, true, true, false)),
                                          (String ((Ascii (true, false,
                                          false, false, false, true, true,
                                          false)), (String ((Ascii (true,
                                          true, false, false, false, true,
                                          true, false)), (String ((Ascii
                                          (true, false, true, false, false,
                                          true, true, false)),
                                          EmptyString))))))))))))))))))) :: (
    (s_ (String ((Ascii (false, true, true, false, false, true, true,
      false)), (String ((Ascii (true, true, true, true, false, true, true,
      false)), (String ((Ascii (false, true, true, true, false, true, true,
      false)), (String ((Ascii (false, false, true, false, true, true, true,
      false)), (String ((Ascii (true, false, true, true, false, true, false,
      false)), (String ((Ascii (false, true, true, false, false, true, true,
      false)), (String ((Ascii (true, false, false, false, false, true, true,
      false)), (String ((Ascii (true, true, false, false, false, true, true,
      false)), (String ((Ascii (true, false, true, false, false, true, true,
      false)), (String ((Ascii (true, false, true, true, false, true, false,
      false)), (String ((Ascii (false, true, true, false, false, true, true,
      false)), (String ((Ascii (true, true, true, true, false, true, true,
      false)), (String ((Ascii (false, true, false, false, true, true, true,
      false)), (String ((Ascii (true, false, true, true, false, true, true,
      false)), (String ((Ascii (true, false, false, false, false, true, true,
      false)), (String ((Ascii (false, false, true, false, true, true, true,
      false)), EmptyString))))))))))))))))))))))))))))))))) :: ((s_ (String
                                                                  ((Ascii
                                                                  (false,
                                                                  true, true,
                                                                  false,
                                                                  false,
                                                                  true, true,
                                                                  false)),
                                                                  (String
                                                                  ((Ascii
                                                                  (true,
                                                                  true, true,
                                                                  true,
                                                                  false,
                                                                  true, true,
                                                                  false)),
                                                                  (String
                                                                  ((Ascii
                                                                  (false,
                                                                  true, true,
                                                                  true,
                                                                  false,
                                                                  true, true,
                                                                  false)),
                                                                  (String
                                                                  ((Ascii
                                                                  (false,
                                                                  false,
                                                                  true,
                                                                  false,
                                                                  true, true,
                                                                  true,
                                                                  false)),
                                                                  (String
                                                                  ((Ascii
                                                                  (true,
                                                                  false,
                                                                  true, true,
                                                                  false,
                                                                  true,
                                                                  false,
                                                                  false)),
                                                                  (String
                                                                  ((Ascii
                                                                  (false,
                                                                  true, true,
                                                                  false,
                                                                  false,
                                                                  true, true,
                                                                  false)),
                                                                  (String
                                                                  ((Ascii
                                                                  (true,
                                                                  false,
                                                                  false,
                                                                  false,
                                                                  false,
                                                                  true, true,
                                                                  false)),
                                                                  (String
                                                                  ((Ascii
                                                                  (true,
                                                                  true,
                                                                  false,
                                                                  false,
                                                                  false,
                                                                  true, true,
                                                                  false)),
                                                                  (String
                                                                  ((Ascii
                                                                  (true,
                                                                  false,
                                                                  true,
                                                                  false,
                                                                  false,
                                                                  true, true,
                                                                  false)),
                                                                  (String
                                                                  ((Ascii
                                                                  (true,
                                                                  false,
                                                                  true, true,
                                                                  false,
                                                                  true,
                                                                  false,
                                                                  false)),
                                                                  (String
                                                                  ((Ascii
                                                                  (false,
                                                                  true, true,
                                                                  true,
                                                                  false,
                                                                  true, true,
                                                                  false)),
                                                                  (String
                                                                  ((Ascii
                                                                  (true,
                                                                  false,
                                                                  false,
                                                                  false,
                                                                  false,
                                                                  true, true,
                                                                  false)),
                                                                  (String
                                                                  ((Ascii
                                                                  (true,
                                                                  false,
                                                                  true, true,
                                                                  false,
                                                                  true, true,
                                                                  false)),
                                                                  (String
                                                                  ((Ascii
                                                                  (true,
                                                                  false,
                                                                  true,
                                                                  false,
                                                                  false,
                                                                  true, true,
                                                                  false)),
                                                                  EmptyString))))))))))))))))))))))))))))) :: (
    (s_ (String ((Ascii (false, true, true, false, false, true, true,
      false)), (String ((Ascii (true, true, true, true, false, true, true,
      false)), (String ((Ascii (false, true, true, true, false, true, true,
      false)), (String ((Ascii (false, false, true, false, true, true, true,
      false)), (String ((Ascii (true, false, true, true, false, true, false,
      false)), (String ((Ascii (false, true, true, false, false, true, true,
      false)), (String ((Ascii (true, false, false, false, false, true, true,
      false)), (String ((Ascii (true, true, false, false, false, true, true,
      false)), (String ((Ascii (true, false, true, false, false, true, true,
      false)), (String ((Ascii (true, false, true, true, false, true, false,
      false)), (String ((Ascii (true, true, false, false, true, true, true,
      false)), (String ((Ascii (false, true, false, false, true, true, true,
      false)), (String ((Ascii (true, true, false, false, false, true, true,
      false)), EmptyString))))))))))))))))))))))))))) :: ((s_ (String ((Ascii
                                                            (false, true,
                                                            true, false,
                                                            false, true,
                                                            true, false)),
                                                            (String ((Ascii
                                                            (true, true,
                                                            true, true,
                                                            false, true,
                                                            true, false)),
                                                            (String ((Ascii
                                                            (false, true,
                                                            true, true,
                                                            false, true,
                                                            true, false)),
                                                            (String ((Ascii
                                                            (false, false,
                                                            true, false,
                                                            true, true, true,
                                                            false)), (String
                                                            ((Ascii (true,
                                                            false, true,
                                                            true, false,
                                                            true, false,
                                                            false)), (String
                                                            ((Ascii (false,
                                                            true, true,
                                                            false, false,
                                                            true, true,
                                                            false)), (String
                                                            ((Ascii (true,
                                                            false, false,
                                                            false, false,
                                                            true, true,
                                                            false)), (String
                                                            ((Ascii (true,
                                                            true, false,
                                                            false, false,
                                                            true, true,
                                                            false)), (String
                                                            ((Ascii (true,
                                                            false, true,
                                                            false, false,
                                                            true, true,
                                                            false)), (String
                                                            ((Ascii (true,
                                                            false, true,
                                                            true, false,
                                                            true, false,
                                                            false)), (String
                                                            ((Ascii (true,
                                                            false, true,
                                                            false, true,
                                                            true, true,
                                                            false)), (String
                                                            ((Ascii (false,
                                                            true, false,
                                                            false, true,
                                                            true, true,
                                                            false)), (String
                                                            ((Ascii (true,
                                                            false, false,
                                                            true, false,
                                                            true, true,
                                                            false)),
                                                            EmptyString))))))))))))))))))))))))))) :: (
    (s_ (String ((Ascii (false, true, true, false, false, true, true,
      false)), (String ((Ascii (true, true, true, true, false, true, true,
      false)), (String ((Ascii (false, true, false, false, true, true, true,
      false)), (String ((Ascii (true, false, true, false, false, true, true,
      false)), (String ((Ascii (true, false, false, true, false, true, true,
      false)), (String ((Ascii (true, true, true, false, false, true, true,
      false)), (String ((Ascii (false, true, true, true, false, true, true,
      false)), (String ((Ascii (true, true, true, true, false, false, true,
      false)), (String ((Ascii (false, true, false, false, false, true, true,
      false)), (String ((Ascii (false, true, false, true, false, true, true,
      false)), (String ((Ascii (true, false, true, false, false, true, true,
      false)), (String ((Ascii (true, true, false, false, false, true, true,
      false)), (String ((Ascii (false, false, true, false, true, true, true,
      false)), EmptyString))))))))))))))))))))))))))) :: ((s_ (String ((Ascii
                                                            (true, true,
                                                            true, false,
                                                            false, true,
                                                            true, false)),
                                                            EmptyString))) :: (
    (s_ (String ((Ascii (true, true, true, false, false, true, true, false)),
      (String ((Ascii (false, false, true, true, false, true, true, false)),
      (String ((Ascii (true, false, false, true, true, true, true, false)),
      (String ((Ascii (false, false, false, false, true, true, true, false)),
      (String ((Ascii (false, false, false, true, false, true, true, false)),
      EmptyString))))))))))) :: ((s_ (String ((Ascii (true, true, true,
                                   false, false, true, true, false)), (String
                                   ((Ascii (false, false, true, true, false,
                                   true, true, false)), (String ((Ascii
                                   (true, false, false, true, true, true,
                                   true, false)), (String ((Ascii (false,
                                   false, false, false, true, true, true,
                                   false)), (String ((Ascii (false, false,
                                   false, true, false, true, true, false)),
                                   (String ((Ascii (false, true, false,
                                   false, true, false, true, false)), (String
                                   ((Ascii (true, false, true, false, false,
                                   true, true, false)), (String ((Ascii
                                   (false, true, true, false, false, true,
                                   true, false)), EmptyString))))))))))))))))) :: (
    (s_ (String ((Ascii (false, false, false, true, false, true, true,
      false)), (String ((Ascii (true, true, false, true, false, true, true,
      false)), (String ((Ascii (true, false, true, false, false, true, true,
      false)), (String ((Ascii (false, true, false, false, true, true, true,
      false)), (String ((Ascii (false, true, true, true, false, true, true,
      false)), EmptyString))))))))))) :: ((s_ (String ((Ascii (true, false,
                                            false, true, false, true, true,
                                            false)), (String ((Ascii (true,
                                            false, true, true, false, true,
                                            true, false)), (String ((Ascii
                                            (true, false, false, false,
                                            false, true, true, false)),
                                            (String ((Ascii (true, true,
                                            true, false, false, true, true,
                                            false)), (String ((Ascii (true,
                                            false, true, false, false, true,
                                            true, false)),
                                            EmptyString))))))))))) :: (
    (s_ (String ((Ascii (false, false, true, true, false, true, true,
      false)), (String ((Ascii (true, false, false, true, false, true, true,
      false)), (String ((Ascii (false, true, true, true, false, true, true,
      false)), (String ((Ascii (true, false, true, false, false, true, true,
      false)), EmptyString))))))))) :: ((s_ (String ((Ascii (false, false,
                                          true, true, false, true, true,
                                          false)), (String ((Ascii (true,
                                          false, false, true, false, true,
                                          true, false)), (String ((Ascii
                                          (false, true, true, true, false,
                                          true, true, false)), (String
                                          ((Ascii (true, false, true, false,
                                          false, true, true, false)), (String
                                          ((Ascii (true, false, false, false,
                                          false, true, true, false)), (String
                                          ((Ascii (false, true, false, false,
                                          true, true, true, false)), (String
                                          ((Ascii (true, true, true, false,
                                          false, false, true, false)),
                                          (String ((Ascii (false, true,
                                          false, false, true, true, true,
                                          false)), (String ((Ascii (true,
                                          false, false, false, false, true,
                                          true, false)), (String ((Ascii
                                          (false, false, true, false, false,
                                          true, true, false)), (String
                                          ((Ascii (true, false, false, true,
                                          false, true, true, false)), (String
                                          ((Ascii (true, false, true, false,
                                          false, true, true, false)), (String
                                          ((Ascii (false, true, true, true,
                                          false, true, true, false)), (String
                                          ((Ascii (false, false, true, false,
                                          true, true, true, false)),
                                          EmptyString))))))))))))))))))))))))))))) :: (
    (s_ (String ((Ascii (true, false, true, true, false, true, true, false)),
      (String ((Ascii (true, false, false, false, false, true, true, false)),
      (String ((Ascii (false, true, false, false, true, true, true, false)),
      (String ((Ascii (true, true, false, true, false, true, true, false)),
      (String ((Ascii (true, false, true, false, false, true, true, false)),
      (String ((Ascii (false, true, false, false, true, true, true, false)),
      EmptyString))))))))))))) :: ((s_ (String ((Ascii (true, false, true,
                                     true, false, true, true, false)),
                                     (String ((Ascii (true, false, false,
                                     false, false, true, true, false)),
                                     (String ((Ascii (true, true, false,
                                     false, true, true, true, false)),
                                     (String ((Ascii (true, true, false,
                                     true, false, true, true, false)),
                                     EmptyString))))))))) :: ((s_ (String
                                                                ((Ascii
                                                                (true, false,
                                                                true, true,
                                                                false, true,
                                                                true,
                                                                false)),
                                                                (String
                                                                ((Ascii
                                                                (true, false,
                                                                true, false,
                                                                false, true,
                                                                true,
                                                                false)),
                                                                (String
                                                                ((Ascii
                                                                (false,
                                                                false, true,
                                                                false, true,
                                                                true, true,
                                                                false)),
                                                                (String
                                                                ((Ascii
                                                                (true, false,
                                                                false, false,
                                                                false, true,
                                                                true,
                                                                false)),
                                                                (String
                                                                ((Ascii
                                                                (false,
                                                                false, true,
                                                                false, false,
                                                                true, true,
                                                                false)),
                                                                (String
                                                                ((Ascii
                                                                (true, false,
                                                                false, false,
                                                                false, true,
                                                                true,
                                                                false)),
                                                                (String
                                                                ((Ascii
                                                                (false,
                                                                false, true,
                                                                false, true,
                                                                true, true,
                                                                false)),
                                                                (String
                                                                ((Ascii
                                                                (true, false,
                                                                false, false,
                                                                false, true,
                                                                true,
                                                                false)),
                                                                EmptyString))))))))))))))))) :: (
    (s_ (String ((Ascii (true, false, true, true, false, true, true, false)),
      (String ((Ascii (true, false, false, true, false, true, true, false)),
      (String ((Ascii (true, true, false, false, true, true, true, false)),
      (String ((Ascii (true, true, false, false, true, true, true, false)),
      (String ((Ascii (true, false, false, true, false, true, true, false)),
      (String ((Ascii (false, true, true, true, false, true, true, false)),
      (String ((Ascii (true, true, true, false, false, true, true, false)),
      (String ((Ascii (true, false, true, true, false, true, false, false)),
      (String ((Ascii (true, true, true, false, false, true, true, false)),
      (String ((Ascii (false, false, true, true, false, true, true, false)),
      (String ((Ascii (true, false, false, true, true, true, true, false)),
      (String ((Ascii (false, false, false, false, true, true, true, false)),
      (String ((Ascii (false, false, false, true, false, true, true, false)),
      EmptyString))))))))))))))))))))))))))) :: ((s_ (String ((Ascii (true,
                                                   false, true, true, false,
                                                   true, true, false)),
                                                   (String ((Ascii (false,
                                                   false, false, false, true,
                                                   true, true, false)),
                                                   (String ((Ascii (true,
                                                   false, false, false,
                                                   false, true, true,
                                                   false)), (String ((Ascii
                                                   (false, false, true,
                                                   false, true, true, true,
                                                   false)), (String ((Ascii
                                                   (false, false, false,
                                                   true, false, true, true,
                                                   false)),
                                                   EmptyString))))))))))) :: (
    (s_ (String ((Ascii (false, false, false, false, true, true, true,
      false)), (String ((Ascii (true, false, false, false, false, true, true,
      false)), (String ((Ascii (false, false, true, false, true, true, true,
      false)), (String ((Ascii (false, false, false, true, false, true, true,
      false)), EmptyString))))))))) :: ((s_ (String ((Ascii (false, false,
                                          false, false, true, true, true,
                                          false)), (String ((Ascii (true,
                                          false, false, false, false, true,
                                          true, false)), (String ((Ascii
                                          (false, false, true, false, true,
                                          true, true, false)), (String
                                          ((Ascii (false, false, true, false,
                                          true, true, true, false)), (String
                                          ((Ascii (true, false, true, false,
                                          false, true, true, false)), (String
                                          ((Ascii (false, true, false, false,
                                          true, true, true, false)), (String
                                          ((Ascii (false, true, true, true,
                                          false, true, true, false)),
                                          EmptyString))))))))))))))) :: (
    (s_ (String ((Ascii (false, false, false, false, true, true, true,
      false)), (String ((Ascii (true, true, true, true, false, true, true,
      false)), (String ((Ascii (false, false, true, true, false, true, true,
      false)), (String ((Ascii (true, false, false, true, true, true, true,
      false)), (String ((Ascii (true, true, true, false, false, true, true,
      false)), (String ((Ascii (true, true, true, true, false, true, true,
      false)), (String ((Ascii (false, true, true, true, false, true, true,
      false)), EmptyString))))))))))))))) :: ((s_ (String ((Ascii (false,
                                                false, false, false, true,
                                                true, true, false)), (String
                                                ((Ascii (true, true, true,
                                                true, false, true, true,
                                                false)), (String ((Ascii
                                                (false, false, true, true,
                                                false, true, true, false)),
                                                (String ((Ascii (true, false,
                                                false, true, true, true,
                                                true, false)), (String
                                                ((Ascii (false, false, true,
                                                true, false, true, true,
                                                false)), (String ((Ascii
                                                (true, false, false, true,
                                                false, true, true, false)),
                                                (String ((Ascii (false, true,
                                                true, true, false, true,
                                                true, false)), (String
                                                ((Ascii (true, false, true,
                                                false, false, true, true,
                                                false)),
                                                EmptyString))))))))))))))))) :: (
    (s_ (String ((Ascii (false, true, false, false, true, true, true,
      false)), (String ((Ascii (true, false, false, false, false, true, true,
      false)), (String ((Ascii (false, false, true, false, false, true, true,
      false)), (String ((Ascii (true, false, false, true, false, true, true,
      false)), (String ((Ascii (true, false, false, false, false, true, true,
      false)), (String ((Ascii (false, false, true, true, false, true, true,
      false)), (String ((Ascii (true, true, true, false, false, false, true,
      false)), (String ((Ascii (false, true, false, false, true, true, true,
      false)), (String ((Ascii (true, false, false, false, false, true, true,
      false)), (String ((Ascii (false, false, true, false, false, true, true,
      false)), (String ((Ascii (true, false, false, true, false, true, true,
      false)), (String ((Ascii (true, false, true, false, false, true, true,
      false)), (String ((Ascii (false, true, true, true, false, true, true,
      false)), (String ((Ascii (false, false, true, false, true, true, true,
      false)), EmptyString))))))))))))))))))))))))))))) :: ((s_ (String
                                                              ((Ascii (false,
                                                              true, false,
                                                              false, true,
                                                              true, true,
                                                              false)),
                                                              (String ((Ascii
                                                              (true, false,
                                                              true, false,
                                                              false, true,
                                                              true, false)),
                                                              (String ((Ascii
                                                              (true, true,
                                                              false, false,
                                                              false, true,
                                                              true, false)),
                                                              (String ((Ascii
                                                              (false, false,
                                                              true, false,
                                                              true, true,
                                                              true, false)),
                                                              EmptyString))))))))) :: (
    (s_ (String ((Ascii (true, true, false, false, true, true, true, false)),
      (String ((Ascii (true, true, false, false, false, true, true, false)),
      (String ((Ascii (false, true, false, false, true, true, true, false)),
      (String ((Ascii (true, false, false, true, false, true, true, false)),
      (String ((Ascii (false, false, false, false, true, true, true, false)),
      (String ((Ascii (false, false, true, false, true, true, true, false)),
      EmptyString))))))))))))) :: ((s_ (String ((Ascii (true, true, false,
                                     false, true, true, true, false)),
                                     (String ((Ascii (true, false, true,
                                     false, false, true, true, false)),
                                     (String ((Ascii (false, false, true,
                                     false, true, true, true, false)),
                                     EmptyString))))))) :: ((s_ (String
                                                              ((Ascii (true,
                                                              true, false,
                                                              false, true,
                                                              true, true,
                                                              false)),
                                                              (String ((Ascii
                                                              (false, false,
                                                              true, false,
                                                              true, true,
                                                              true, false)),
                                                              (String ((Ascii
                                                              (true, true,
                                                              true, true,
                                                              false, true,
                                                              true, false)),
                                                              (String ((Ascii
                                                              (false, false,
                                                              false, false,
                                                              true, true,
                                                              true, false)),
                                                              EmptyString))))))))) :: (
    (s_ (String ((Ascii (true, true, false, false, true, true, true, false)),
      (String ((Ascii (false, false, true, false, true, true, true, false)),
      (String ((Ascii (true, false, false, true, true, true, true, false)),
      (String ((Ascii (false, false, true, true, false, true, true, false)),
      (String ((Ascii (true, false, true, false, false, true, true, false)),
      EmptyString))))))))))) :: ((s_ (String ((Ascii (true, true, false,
                                   false, true, true, true, false)), (String
                                   ((Ascii (false, true, true, false, true,
                                   true, true, false)), (String ((Ascii
                                   (true, true, true, false, false, true,
                                   true, false)), EmptyString))))))) :: (
    (s_ (String ((Ascii (true, true, false, false, true, true, true, false)),
      (String ((Ascii (true, true, true, false, true, true, true, false)),
      (String ((Ascii (true, false, false, true, false, true, true, false)),
      (String ((Ascii (false, false, true, false, true, true, true, false)),
      (String ((Ascii (true, true, false, false, false, true, true, false)),
      (String ((Ascii (false, false, false, true, false, true, true, false)),
      EmptyString))))))))))))) :: ((s_ (String ((Ascii (true, true, false,
                                     false, true, true, true, false)),
                                     (String ((Ascii (true, false, false,
                                     true, true, true, true, false)), (String
                                     ((Ascii (true, false, true, true, false,
                                     true, true, false)), (String ((Ascii
                                     (false, true, false, false, false, true,
                                     true, false)), (String ((Ascii (true,
                                     true, true, true, false, true, true,
                                     false)), (String ((Ascii (false, false,
                                     true, true, false, true, true, false)),
                                     EmptyString))))))))))))) :: ((s_ (String
                                                                    ((Ascii
                                                                    (false,
                                                                    false,
                                                                    true,
                                                                    false,
                                                                    true,
                                                                    true,
                                                                    true,
                                                                    false)),
                                                                    (String
                                                                    ((Ascii
                                                                    (true,
                                                                    false,
                                                                    true,
                                                                    false,
                                                                    false,
                                                                    true,
                                                                    true,
                                                                    false)),
                                                                    (String
                                                                    ((Ascii
                                                                    (false,
                                                                    false,
                                                                    false,
                                                                    true,
                                                                    true,
                                                                    true,
                                                                    true,
                                                                    false)),
                                                                    (String
                                                                    ((Ascii
                                                                    (false,
                                                                    false,
                                                                    true,
                                                                    false,
                                                                    true,
                                                                    true,
                                                                    true,
                                                                    false)),
                                                                    EmptyString))))))))) :: (
    (s_ (String ((Ascii (false, false, true, false, true, true, true,
      false)), (String ((Ascii (true, false, true, false, false, true, true,
      false)), (String ((Ascii (false, false, false, true, true, true, true,
      false)), (String ((Ascii (false, false, true, false, true, true, true,
      false)), (String ((Ascii (false, false, false, false, true, false,
      true, false)), (String ((Ascii (true, false, false, false, false, true,
      true, false)), (String ((Ascii (false, false, true, false, true, true,
      true, false)), (String ((Ascii (false, false, false, true, false, true,
      true, false)), EmptyString))))))))))))))))) :: ((s_ (String ((Ascii
                                                        (false, false, true,
                                                        false, true, true,
                                                        true, false)),
                                                        (String ((Ascii
                                                        (true, false, false,
                                                        true, false, true,
                                                        true, false)),
                                                        (String ((Ascii
                                                        (false, false, true,
                                                        false, true, true,
                                                        true, false)),
                                                        (String ((Ascii
                                                        (false, false, true,
                                                        true, false, true,
                                                        true, false)),
                                                        (String ((Ascii
                                                        (true, false, true,
                                                        false, false, true,
                                                        true, false)),
                                                        EmptyString))))))))))) :: (
    (s_ (String ((Ascii (false, false, true, false, true, true, true,
      false)), (String ((Ascii (false, true, false, false, true, true, true,
      false)), (String ((Ascii (true, false, true, false, false, true, true,
      false)), (String ((Ascii (false, true, true, false, false, true, true,
      false)), EmptyString))))))))) :: ((s_ (String ((Ascii (false, false,
                                          true, false, true, true, true,
                                          false)), (String ((Ascii (true,
                                          true, false, false, true, true,
                                          true, false)), (String ((Ascii
                                          (false, false, false, false, true,
                                          true, true, false)), (String
                                          ((Ascii (true, false, false, false,
                                          false, true, true, false)), (String
                                          ((Ascii (false, true, true, true,
                                          false, true, true, false)),
                                          EmptyString))))))))))) :: (
    (s_ (String ((Ascii (true, false, true, false, true, true, true, false)),
      (String ((Ascii (true, true, false, false, true, true, true, false)),
      (String ((Ascii (true, false, true, false, false, true, true, false)),
      EmptyString))))))) :: ((s_ (String ((Ascii (false, true, true, false,
                               true, true, true, false)), (String ((Ascii
                               (true, false, false, true, false, true, true,
                               false)), (String ((Ascii (true, false, true,
                               false, false, true, true, false)), (String
                               ((Ascii (true, true, true, false, true, true,
                               true, false)), EmptyString))))))))) :: (
    (s_ (String ((Ascii (false, true, true, false, true, true, true, false)),
      (String ((Ascii (true, true, false, true, false, true, true, false)),
      (String ((Ascii (true, false, true, false, false, true, true, false)),
      (String ((Ascii (false, true, false, false, true, true, true, false)),
      (String ((Ascii (false, true, true, true, false, true, true, false)),
      EmptyString))))))))))) :: [])))))))))))))))))))))))))))))))))))))))))))))))))))))))))))))))))))))))))))))))
