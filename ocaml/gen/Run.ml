open Ascii
open Ast
open BinNat
open BinNums
open Bool
open Context
open Datatypes
open DcViews
open Json
open List
open NodeInd
open Options
open OutViews
open Plain
open Pragma
open SiteCheck
open SlotFlagCheck
open State
open Str
open String
open Tables
open TyParse
open Types
open Visitor

(** val jfield_d : string -> jv -> jv **)

let jfield_d k j =
  match jfield (s_ k) j with
  | Some v -> v
  | None -> JNull

(** val jbool_d : jv -> bool **)

let jbool_d = function
| JBool b -> b
| _ -> false

(** val jstrs : jv -> str list **)

let jstrs j =
  fold_right (fun x acc -> match x with
                           | JStr s -> s :: acc
                           | _ -> acc) [] (jarr j)

(** val options_of : jv -> options **)

let options_of j =
  { o_transform_on =
    (jbool_d
      (jfield_d (String ((Ascii (false, false, true, false, true, true, true,
        false)), (String ((Ascii (false, true, false, false, true, true,
        true, false)), (String ((Ascii (true, false, false, false, false,
        true, true, false)), (String ((Ascii (false, true, true, true, false,
        true, true, false)), (String ((Ascii (true, true, false, false, true,
        true, true, false)), (String ((Ascii (false, true, true, false,
        false, true, true, false)), (String ((Ascii (true, true, true, true,
        false, true, true, false)), (String ((Ascii (false, true, false,
        false, true, true, true, false)), (String ((Ascii (true, false, true,
        true, false, true, true, false)), (String ((Ascii (true, true, true,
        true, false, false, true, false)), (String ((Ascii (false, true,
        true, true, false, true, true, false)),
        EmptyString)))))))))))))))))))))) j)); o_optimize =
    (jbool_d
      (jfield_d (String ((Ascii (true, true, true, true, false, true, true,
        false)), (String ((Ascii (false, false, false, false, true, true,
        true, false)), (String ((Ascii (false, false, true, false, true,
        true, true, false)), (String ((Ascii (true, false, false, true,
        false, true, true, false)), (String ((Ascii (true, false, true, true,
        false, true, true, false)), (String ((Ascii (true, false, false,
        true, false, true, true, false)), (String ((Ascii (false, true,
        false, true, true, true, true, false)), (String ((Ascii (true, false,
        true, false, false, true, true, false)), EmptyString))))))))))))))))
        j)); o_merge_props =
    (jbool_d
      (jfield_d (String ((Ascii (true, false, true, true, false, true, true,
        false)), (String ((Ascii (true, false, true, false, false, true,
        true, false)), (String ((Ascii (false, true, false, false, true,
        true, true, false)), (String ((Ascii (true, true, true, false, false,
        true, true, false)), (String ((Ascii (true, false, true, false,
        false, true, true, false)), (String ((Ascii (false, false, false,
        false, true, false, true, false)), (String ((Ascii (false, true,
        false, false, true, true, true, false)), (String ((Ascii (true, true,
        true, true, false, true, true, false)), (String ((Ascii (false,
        false, false, false, true, true, true, false)), (String ((Ascii
        (true, true, false, false, true, true, true, false)),
        EmptyString)))))))))))))))))))) j)); o_object_slots =
    (jbool_d
      (jfield_d (String ((Ascii (true, false, true, false, false, true, true,
        false)), (String ((Ascii (false, true, true, true, false, true, true,
        false)), (String ((Ascii (true, false, false, false, false, true,
        true, false)), (String ((Ascii (false, true, false, false, false,
        true, true, false)), (String ((Ascii (false, false, true, true,
        false, true, true, false)), (String ((Ascii (true, false, true,
        false, false, true, true, false)), (String ((Ascii (true, true, true,
        true, false, false, true, false)), (String ((Ascii (false, true,
        false, false, false, true, true, false)), (String ((Ascii (false,
        true, false, true, false, true, true, false)), (String ((Ascii (true,
        false, true, false, false, true, true, false)), (String ((Ascii
        (true, true, false, false, false, true, true, false)), (String
        ((Ascii (false, false, true, false, true, true, true, false)),
        (String ((Ascii (true, true, false, false, true, false, true,
        false)), (String ((Ascii (false, false, true, true, false, true,
        true, false)), (String ((Ascii (true, true, true, true, false, true,
        true, false)), (String ((Ascii (false, false, true, false, true,
        true, true, false)), (String ((Ascii (true, true, false, false, true,
        true, true, false)), EmptyString)))))))))))))))))))))))))))))))))) j));
    o_pragma =
    (jstr
      (jfield_d (String ((Ascii (false, false, false, false, true, true,
        true, false)), (String ((Ascii (false, true, false, false, true,
        true, true, false)), (String ((Ascii (true, false, false, false,
        false, true, true, false)), (String ((Ascii (true, true, true, false,
        false, true, true, false)), (String ((Ascii (true, false, true, true,
        false, true, true, false)), (String ((Ascii (true, false, false,
        false, false, true, true, false)), EmptyString)))))))))))) j));
    o_resolve_type =
    (jbool_d
      (jfield_d (String ((Ascii (false, true, false, false, true, true, true,
        false)), (String ((Ascii (true, false, true, false, false, true,
        true, false)), (String ((Ascii (true, true, false, false, true, true,
        true, false)), (String ((Ascii (true, true, true, true, false, true,
        true, false)), (String ((Ascii (false, false, true, true, false,
        true, true, false)), (String ((Ascii (false, true, true, false, true,
        true, true, false)), (String ((Ascii (true, false, true, false,
        false, true, true, false)), (String ((Ascii (false, false, true,
        false, true, false, true, false)), (String ((Ascii (true, false,
        false, true, true, true, true, false)), (String ((Ascii (false,
        false, false, false, true, true, true, false)), (String ((Ascii
        (true, false, true, false, false, true, true, false)),
        EmptyString)))))))))))))))))))))) j)); o_npat =
    (length
      (jarr
        (jfield_d (String ((Ascii (false, false, false, false, true, true,
          true, false)), (String ((Ascii (true, false, false, false, false,
          true, true, false)), (String ((Ascii (false, false, true, false,
          true, true, true, false)), (String ((Ascii (false, false, true,
          false, true, true, true, false)), (String ((Ascii (true, false,
          true, false, false, true, true, false)), (String ((Ascii (false,
          true, false, false, true, true, true, false)), (String ((Ascii
          (false, true, true, true, false, true, true, false)), (String
          ((Ascii (true, true, false, false, true, true, true, false)),
          EmptyString)))))))))))))))) j))) }

(** val matches_of : jv -> (str * bool list) list **)

let matches_of j =
  fold_right (fun x acc ->
    match x with
    | JArr l ->
      (match l with
       | [] -> acc
       | j0 :: l0 ->
         (match j0 with
          | JStr n ->
            (match l0 with
             | [] -> acc
             | j1 :: l1 ->
               (match j1 with
                | JArr bs ->
                  (match l1 with
                   | [] -> (n, (map jbool_d bs)) :: acc
                   | _ :: _ -> acc)
                | _ -> acc))
          | _ -> acc))
    | _ -> acc) [] (jarr j)

(** val env_of : jv -> env **)

let env_of c =
  { e_opts =
    (options_of
      (jfield_d (String ((Ascii (true, true, true, true, false, true, true,
        false)), (String ((Ascii (false, false, false, false, true, true,
        true, false)), (String ((Ascii (false, false, true, false, true,
        true, true, false)), (String ((Ascii (true, false, false, true,
        false, true, true, false)), (String ((Ascii (true, true, true, true,
        false, true, true, false)), (String ((Ascii (false, true, true, true,
        false, true, true, false)), (String ((Ascii (true, true, false,
        false, true, true, true, false)), EmptyString)))))))))))))) c));
    e_unres =
    (match jnat
             (jfield_d (String ((Ascii (true, false, true, false, true, true,
               true, false)), (String ((Ascii (false, true, true, true,
               false, true, true, false)), (String ((Ascii (false, true,
               false, false, true, true, true, false)), (String ((Ascii
               (true, false, true, false, false, true, true, false)), (String
               ((Ascii (true, true, false, false, true, true, true, false)),
               EmptyString)))))))))) c) with
     | Some n -> n
     | None -> N0); e_matches =
    (matches_of
      (jfield_d (String ((Ascii (true, false, true, true, false, true, true,
        false)), (String ((Ascii (true, false, false, false, false, true,
        true, false)), (String ((Ascii (false, false, true, false, true,
        true, true, false)), (String ((Ascii (true, true, false, false,
        false, true, true, false)), (String ((Ascii (false, false, false,
        true, false, true, true, false)), (String ((Ascii (true, false, true,
        false, false, true, true, false)), (String ((Ascii (true, true,
        false, false, true, true, true, false)), EmptyString)))))))))))))) c));
    e_html = html_tags; e_svg = svg_tags; e_comments =
    (map jstrs
      (jarr
        (jfield_d (String ((Ascii (true, true, false, false, false, true,
          true, false)), (String ((Ascii (true, true, true, true, false,
          true, true, false)), (String ((Ascii (true, false, true, true,
          false, true, true, false)), (String ((Ascii (true, false, true,
          true, false, true, true, false)), (String ((Ascii (true, false,
          true, false, false, true, true, false)), (String ((Ascii (false,
          true, true, true, false, true, true, false)), (String ((Ascii
          (false, false, true, false, true, true, true, false)), (String
          ((Ascii (true, true, false, false, true, true, true, false)),
          EmptyString)))))))))))))))) c))) }

(** val model_run : jv -> jv * st **)

let model_run c =
  let e = env_of c in
  let (out, s) =
    transform_module e (hook_call e) (hook_declarator e)
      (collect_ts_decls e subs)
      (dec
        (jfield_d (String ((Ascii (true, false, false, true, false, true,
          true, false)), (String ((Ascii (false, true, true, true, false,
          true, true, false)), (String ((Ascii (false, false, false, false,
          true, true, true, false)), (String ((Ascii (true, false, true,
          false, true, true, true, false)), (String ((Ascii (false, false,
          true, false, true, true, true, false)), EmptyString)))))))))) c))
  in
  ((fst (canon (enc out) [])), s)

(** val strs_eqb : str list -> str list -> bool **)

let rec strs_eqb a b =
  match a with
  | [] -> (match b with
           | [] -> true
           | _ :: _ -> false)
  | x :: a' ->
    (match b with
     | [] -> false
     | y :: b' -> (&&) (str_eqb x y) (strs_eqb a' b'))

(** val insert_sorted_set : str -> str list -> str list **)

let rec insert_sorted_set x l = match l with
| [] -> x :: []
| y :: r ->
  if str_eqb y x
  then l
  else if str_ltb y x then y :: (insert_sorted_set x r) else x :: l

(** val sort_strs : str list -> str list **)

let sort_strs l =
  fold_right insert_sorted_set [] l

type case_result = { cr_relevant : bool; cr_roundtrip : bool;
                     cr_same_status : bool; cr_same_out : bool;
                     cr_same_diag : bool; cr_model_out : jv;
                     cr_model_diags : str list; cr_extra : (str * str) list;
                     cr_views : jv }

(** val b2s : bool -> str **)

let b2s = function
| true -> (Npos (Coq_xI (Coq_xO (Coq_xO (Coq_xO (Coq_xI Coq_xH)))))) :: []
| false -> (Npos (Coq_xO (Coq_xO (Coq_xO (Coq_xO (Coq_xI Coq_xH)))))) :: []

(** val is_ok_status : jv -> bool **)

let is_ok_status = function
| JStr st0 ->
  sq (String ((Ascii (true, true, true, true, false, true, true, false)),
    (String ((Ascii (true, true, false, true, false, true, true, false)),
    EmptyString)))) st0
| _ -> false

(** val module_items : node -> node list **)

let module_items = function
| NObj l ->
  (match l with
   | [] -> []
   | n :: l0 ->
     (match n with
      | Field (_, _) ->
        (match l0 with
         | [] -> []
         | n0 :: l1 ->
           (match n0 with
            | Field (_, v0) ->
              (match v0 with
               | NArr items ->
                 (match l1 with
                  | [] -> []
                  | _ :: l2 -> (match l2 with
                                | [] -> items
                                | _ :: _ -> []))
               | _ -> [])
            | _ -> []))
      | _ -> []))
| _ -> []

(** val subseq_items : node list -> node list -> bool **)

let rec subseq_items xs ys =
  match xs with
  | [] -> true
  | x :: xr ->
    (match ys with
     | [] -> false
     | y :: yr ->
       if jv_eqb (enc x) (enc y)
       then subseq_items xr yr
       else subseq_items xs yr)

(** val ends_with : string -> str -> bool **)

let ends_with x s =
  starts_with (rev (s_ x)) (rev s)

(** val is_stmt : node -> bool **)

let is_stmt n = match n with
| NObj _ ->
  (||)
    (ends_with (String ((Ascii (true, true, false, false, true, false, true,
      false)), (String ((Ascii (false, false, true, false, true, true, true,
      false)), (String ((Ascii (true, false, false, false, false, true, true,
      false)), (String ((Ascii (false, false, true, false, true, true, true,
      false)), (String ((Ascii (true, false, true, false, false, true, true,
      false)), (String ((Ascii (true, false, true, true, false, true, true,
      false)), (String ((Ascii (true, false, true, false, false, true, true,
      false)), (String ((Ascii (false, true, true, true, false, true, true,
      false)), (String ((Ascii (false, false, true, false, true, true, true,
      false)), EmptyString)))))))))))))))))) (ntype n))
    (ends_with (String ((Ascii (false, false, true, false, false, false,
      true, false)), (String ((Ascii (true, false, true, false, false, true,
      true, false)), (String ((Ascii (true, true, false, false, false, true,
      true, false)), (String ((Ascii (false, false, true, true, false, true,
      true, false)), (String ((Ascii (true, false, false, false, false, true,
      true, false)), (String ((Ascii (false, true, false, false, true, true,
      true, false)), (String ((Ascii (true, false, false, false, false, true,
      true, false)), (String ((Ascii (false, false, true, false, true, true,
      true, false)), (String ((Ascii (true, false, false, true, false, true,
      true, false)), (String ((Ascii (true, true, true, true, false, true,
      true, false)), (String ((Ascii (false, true, true, true, false, true,
      true, false)), EmptyString)))))))))))))))))))))) (ntype n))
| Block (_, _) -> true
| _ -> false

(** val remove_jv : jv -> jv list -> jv list option **)

let rec remove_jv x = function
| [] -> None
| y :: r ->
  if jv_eqb x y
  then Some r
  else (match remove_jv x r with
        | Some r' -> Some (y :: r')
        | None -> None)

(** val sub_multiset : jv list -> jv list -> bool **)

let rec sub_multiset xs ys =
  match xs with
  | [] -> true
  | x :: r ->
    (match remove_jv x ys with
     | Some ys' -> sub_multiset r ys'
     | None -> false)

(** val stmts_kept : node -> node -> bool **)

let stmts_kept input output =
  sub_multiset
    (map enc (filter (fun n -> (&&) (is_stmt n) (jsx_free n)) (subs input)))
    (map enc (filter is_stmt (subs output)))

(** val extras : jv -> jv -> (str * str) list **)

let extras c model_out =
  let e = env_of c in
  let real_j =
    jfield_d (String ((Ascii (true, true, true, true, false, true, true,
      false)), (String ((Ascii (true, false, true, false, true, true, true,
      false)), (String ((Ascii (false, false, true, false, true, true, true,
      false)), (String ((Ascii (false, false, false, false, true, true, true,
      false)), (String ((Ascii (true, false, true, false, true, true, true,
      false)), (String ((Ascii (false, false, true, false, true, true, true,
      false)), EmptyString)))))))))))) c
  in
  let real = dec real_j in
  let model = dec model_out in
  let input =
    dec
      (jfield_d (String ((Ascii (true, false, false, true, false, true, true,
        false)), (String ((Ascii (false, true, true, true, false, true, true,
        false)), (String ((Ascii (false, false, false, false, true, true,
        true, false)), (String ((Ascii (true, false, true, false, true, true,
        true, false)), (String ((Ascii (false, false, true, false, true,
        true, true, false)), EmptyString)))))))))) c)
  in
  let rdiags =
    jstrs
      (jfield_d (String ((Ascii (false, false, true, false, false, true,
        true, false)), (String ((Ascii (true, false, false, true, false,
        true, true, false)), (String ((Ascii (true, false, false, false,
        false, true, true, false)), (String ((Ascii (true, true, true, false,
        false, true, true, false)), (String ((Ascii (true, true, false,
        false, true, true, true, false)), EmptyString)))))))))) c)
  in
  let alt =
    jfield_d (String ((Ascii (true, false, false, false, false, true, true,
      false)), (String ((Ascii (false, false, true, true, false, true, true,
      false)), (String ((Ascii (false, false, true, false, true, true, true,
      false)), EmptyString)))))) c
  in
  let alt_ok =
    is_ok_status
      (jfield_d (String ((Ascii (true, true, false, false, true, true, true,
        false)), (String ((Ascii (false, false, true, false, true, true,
        true, false)), (String ((Ascii (true, false, false, false, false,
        true, true, false)), (String ((Ascii (false, false, true, false,
        true, true, true, false)), (String ((Ascii (true, false, true, false,
        true, true, true, false)), (String ((Ascii (true, true, false, false,
        true, true, true, false)), EmptyString)))))))))))) alt)
  in
  ((s_ (String ((Ascii (true, true, true, true, false, true, true, false)),
     (String ((Ascii (true, true, false, false, false, false, true, false)),
     (String ((Ascii (true, false, false, false, true, true, false, false)),
     (String ((Ascii (true, true, false, false, true, true, false, false)),
     EmptyString))))))))),
  (match oracle_C13_codes real with
   | [] -> (Npos (Coq_xI (Coq_xO (Coq_xO (Coq_xO (Coq_xI Coq_xH)))))) :: []
   | n :: l ->
     let cs = n :: l in
     if forallb (N.eqb (Npos (Coq_xI (Coq_xI (Coq_xO Coq_xH))))) cs
     then s_ (String ((Ascii (true, true, false, true, false, true, true,
            false)), (String ((Ascii (false, true, true, true, false, true,
            true, false)), (String ((Ascii (true, true, true, true, false,
            true, true, false)), (String ((Ascii (true, true, true, false,
            true, true, true, false)), (String ((Ascii (false, true, true,
            true, false, true, true, false)), (String ((Ascii (false, true,
            false, true, true, true, false, false)), (String ((Ascii (true,
            true, false, false, false, true, true, false)), (String ((Ascii
            (false, false, true, true, false, true, true, false)), (String
            ((Ascii (true, false, false, false, false, true, true, false)),
            (String ((Ascii (true, true, false, false, true, true, true,
            false)), (String ((Ascii (true, true, false, false, true, true,
            true, false)), (String ((Ascii (true, true, true, true, true,
            false, true, false)), (String ((Ascii (true, true, true, true,
            false, true, true, false)), (String ((Ascii (false, true, true,
            true, false, true, true, false)), (String ((Ascii (true, true,
            true, true, true, false, true, false)), (String ((Ascii (false,
            true, false, false, false, true, true, false)), (String ((Ascii
            (true, false, true, false, true, true, true, false)), (String
            ((Ascii (true, false, false, true, false, true, true, false)),
            (String ((Ascii (false, false, true, true, false, true, true,
            false)), (String ((Ascii (false, false, true, false, true, true,
            true, false)), (String ((Ascii (true, false, false, true, false,
            true, true, false)), (String ((Ascii (false, true, true, true,
            false, true, true, false)), (String ((Ascii (true, true, true,
            true, true, false, true, false)), (String ((Ascii (false, false,
            false, true, false, true, true, false)), (String ((Ascii (true,
            true, true, true, false, true, true, false)), (String ((Ascii
            (true, true, false, false, true, true, true, false)), (String
            ((Ascii (false, false, true, false, true, true, true, false)),
            EmptyString))))))))))))))))))))))))))))))))))))))))))))))))))))))
     else app
            (s_ (String ((Ascii (false, true, true, false, false, true, true,
              false)), (String ((Ascii (true, false, false, false, false,
              true, true, false)), (String ((Ascii (true, false, false, true,
              false, true, true, false)), (String ((Ascii (false, false,
              true, true, false, true, true, false)), (String ((Ascii (false,
              true, false, true, true, true, false, false)),
              EmptyString)))))))))))
            (dec_of_N
              (hd N0
                (filter (fun c0 ->
                  negb (N.eqb c0 (Npos (Coq_xI (Coq_xI (Coq_xO Coq_xH))))))
                  cs))))) :: (((s_ (String ((Ascii (false, true, true, false,
                                 true, true, true, false)), (String ((Ascii
                                 (true, true, false, false, false, false,
                                 true, false)), (String ((Ascii (true, false,
                                 false, false, true, true, false, false)),
                                 (String ((Ascii (true, true, false, false,
                                 true, true, false, false)),
                                 EmptyString))))))))),
  (b2s (jv_eqb (view_C13 real) (view_C13 model)))) :: (((s_ (String ((Ascii
                                                          (true, true, false,
                                                          false, true, true,
                                                          true, false)),
                                                          (String ((Ascii
                                                          (true, false,
                                                          false, true, false,
                                                          true, true,
                                                          false)), (String
                                                          ((Ascii (false,
                                                          false, true, false,
                                                          true, true, true,
                                                          false)), (String
                                                          ((Ascii (true,
                                                          false, true, false,
                                                          false, true, true,
                                                          false)), (String
                                                          ((Ascii (true,
                                                          true, true, true,
                                                          true, false, true,
                                                          false)), (String
                                                          ((Ascii (false,
                                                          true, true, false,
                                                          false, true, true,
                                                          false)), (String
                                                          ((Ascii (false,
                                                          false, true, true,
                                                          false, true, true,
                                                          false)), (String
                                                          ((Ascii (true,
                                                          false, false,
                                                          false, false, true,
                                                          true, false)),
                                                          (String ((Ascii
                                                          (true, true, true,
                                                          false, false, true,
                                                          true, false)),
                                                          (String ((Ascii
                                                          (true, true, false,
                                                          false, true, true,
                                                          true, false)),
                                                          EmptyString))))))))))))))))))))),
  (match find_site input with
   | Some el ->
     (match find_site real with
      | Some o ->
        (match flags_site e (S (S (S (S (S (S (S (S (S (S (S (S (S (S (S (S
                 (S (S (S (S (S (S (S (S (S (S (S (S (S (S (S (S (S (S (S (S
                 (S (S (S (S O)))))))))))))))))))))))))))))))))))))))) el o with
         | [] ->
           (Npos (Coq_xI (Coq_xO (Coq_xO (Coq_xO (Coq_xI Coq_xH)))))) :: []
         | s :: l ->
           join ((Npos (Coq_xO (Coq_xO (Coq_xI (Coq_xI (Coq_xO
             Coq_xH)))))) :: []) (s :: l))
      | None ->
        s_ (String ((Ascii (false, true, true, true, false, true, true,
          false)), (String ((Ascii (true, true, true, true, false, true,
          true, false)), (String ((Ascii (false, true, true, true, false,
          true, true, false)), (String ((Ascii (true, false, true, false,
          false, true, true, false)), EmptyString)))))))))
   | None ->
     s_ (String ((Ascii (false, true, true, true, false, true, true, false)),
       (String ((Ascii (true, true, true, true, false, true, true, false)),
       (String ((Ascii (false, true, true, true, false, true, true, false)),
       (String ((Ascii (true, false, true, false, false, true, true, false)),
       EmptyString)))))))))) :: (((s_ (String ((Ascii (true, true, false,
                                    false, true, true, true, false)), (String
                                    ((Ascii (true, false, false, true, false,
                                    true, true, false)), (String ((Ascii
                                    (false, false, true, false, true, true,
                                    true, false)), (String ((Ascii (true,
                                    false, true, false, false, true, true,
                                    false)), (String ((Ascii (true, true,
                                    true, true, true, false, true, false)),
                                    (String ((Ascii (false, true, true,
                                    false, false, true, true, false)),
                                    (String ((Ascii (false, false, true,
                                    true, false, true, true, false)), (String
                                    ((Ascii (true, false, false, false,
                                    false, true, true, false)), (String
                                    ((Ascii (true, true, true, false, false,
                                    true, true, false)), (String ((Ascii
                                    (true, true, false, false, true, true,
                                    true, false)), (String ((Ascii (true,
                                    true, true, true, true, false, true,
                                    false)), (String ((Ascii (true, false,
                                    true, true, false, true, true, false)),
                                    (String ((Ascii (true, true, true, true,
                                    false, true, true, false)), (String
                                    ((Ascii (false, false, true, false,
                                    false, true, true, false)), (String
                                    ((Ascii (true, false, true, false, false,
                                    true, true, false)), (String ((Ascii
                                    (false, false, true, true, false, true,
                                    true, false)),
                                    EmptyString))))))))))))))))))))))))))))))))),
  (match find_site input with
   | Some el ->
     (match find_site model with
      | Some o ->
        (match flags_site e (S (S (S (S (S (S (S (S (S (S (S (S (S (S (S (S
                 (S (S (S (S (S (S (S (S (S (S (S (S (S (S (S (S (S (S (S (S
                 (S (S (S (S O)))))))))))))))))))))))))))))))))))))))) el o with
         | [] ->
           (Npos (Coq_xI (Coq_xO (Coq_xO (Coq_xO (Coq_xI Coq_xH)))))) :: []
         | s :: l ->
           join ((Npos (Coq_xO (Coq_xO (Coq_xI (Coq_xI (Coq_xO
             Coq_xH)))))) :: []) (s :: l))
      | None ->
        s_ (String ((Ascii (false, true, true, true, false, true, true,
          false)), (String ((Ascii (true, true, true, true, false, true,
          true, false)), (String ((Ascii (false, true, true, true, false,
          true, true, false)), (String ((Ascii (true, false, true, false,
          false, true, true, false)), EmptyString)))))))))
   | None ->
     s_ (String ((Ascii (false, true, true, true, false, true, true, false)),
       (String ((Ascii (true, true, true, true, false, true, true, false)),
       (String ((Ascii (false, true, true, true, false, true, true, false)),
       (String ((Ascii (true, false, true, false, false, true, true, false)),
       EmptyString)))))))))) :: (((s_ (String ((Ascii (true, true, true,
                                    false, false, true, true, false)),
                                    (String ((Ascii (false, true, false,
                                    false, true, true, true, false)), (String
                                    ((Ascii (true, false, false, false,
                                    false, true, true, false)), (String
                                    ((Ascii (true, false, true, true, false,
                                    true, true, false)), (String ((Ascii
                                    (true, true, true, true, true, false,
                                    true, false)), (String ((Ascii (true,
                                    false, false, true, false, true, true,
                                    false)), (String ((Ascii (false, true,
                                    true, true, false, true, true, false)),
                                    EmptyString))))))))))))))),
  (b2s ((&&) (module_shape input) (gram PExpr input)))) :: (((s_ (String
                                                               ((Ascii (true,
                                                               true, true,
                                                               true, false,
                                                               true, true,
                                                               false)),
                                                               (String
                                                               ((Ascii (true,
                                                               true, false,
                                                               false, false,
                                                               false, true,
                                                               false)),
                                                               (String
                                                               ((Ascii
                                                               (false, false,
                                                               false, false,
                                                               true, true,
                                                               false,
                                                               false)),
                                                               (String
                                                               ((Ascii (true,
                                                               true, true,
                                                               false, true,
                                                               true, false,
                                                               false)),
                                                               EmptyString))))))))),
  (b2s
    ((||) (jsx_free real) (match rdiags with
                           | [] -> false
                           | _ :: _ -> true)))) :: (((s_ (String ((Ascii
                                                       (false, true, true,
                                                       false, true, true,
                                                       true, false)), (String
                                                       ((Ascii (true, true,
                                                       false, false, false,
                                                       false, true, false)),
                                                       (String ((Ascii
                                                       (false, false, false,
                                                       false, true, true,
                                                       false, false)),
                                                       (String ((Ascii (true,
                                                       true, true, false,
                                                       true, true, false,
                                                       false)),
                                                       EmptyString))))))))),
  (b2s (eqb (jsx_free real) (jsx_free model)))) :: (((s_ (String ((Ascii
                                                       (true, true, true,
                                                       true, false, true,
                                                       true, false)), (String
                                                       ((Ascii (true, true,
                                                       false, false, false,
                                                       false, true, false)),
                                                       (String ((Ascii (true,
                                                       false, false, false,
                                                       true, true, false,
                                                       false)), (String
                                                       ((Ascii (true, false,
                                                       true, false, true,
                                                       true, false, false)),
                                                       EmptyString))))))))),
  (b2s (oracle_C15 (expected_pragma e) real))) :: (((s_ (String ((Ascii
                                                      (false, true, true,
                                                      false, true, true,
                                                      true, false)), (String
                                                      ((Ascii (true, true,
                                                      false, false, false,
                                                      false, true, false)),
                                                      (String ((Ascii (true,
                                                      false, false, false,
                                                      true, true, false,
                                                      false)), (String
                                                      ((Ascii (true, false,
                                                      true, false, true,
                                                      true, false, false)),
                                                      EmptyString))))))))),
  (b2s (jv_eqb (view_C15 real) (view_C15 model)))) :: (((s_ (String ((Ascii
                                                          (true, true, true,
                                                          true, false, true,
                                                          true, false)),
                                                          (String ((Ascii
                                                          (true, true, false,
                                                          false, false,
                                                          false, true,
                                                          false)), (String
                                                          ((Ascii (false,
                                                          false, false,
                                                          false, true, true,
                                                          false, false)),
                                                          (String ((Ascii
                                                          (true, false,
                                                          false, true, true,
                                                          true, false,
                                                          false)), (String
                                                          ((Ascii (false,
                                                          true, true, false,
                                                          false, true, true,
                                                          false)), (String
                                                          ((Ascii (false,
                                                          true, false, false,
                                                          true, true, true,
                                                          false)), (String
                                                          ((Ascii (true,
                                                          false, false,
                                                          false, false, true,
                                                          true, false)),
                                                          (String ((Ascii
                                                          (true, false, true,
                                                          true, false, true,
                                                          true, false)),
                                                          (String ((Ascii
                                                          (true, false, true,
                                                          false, false, true,
                                                          true, false)),
                                                          EmptyString))))))))))))))))))),
  (b2s
    (if (&&) (jsx_free input) (negb e.e_opts.o_resolve_type)
     then jv_eqb real_j
            (jfield_d (String ((Ascii (true, false, false, true, false, true,
              true, false)), (String ((Ascii (false, true, true, true, false,
              true, true, false)), (String ((Ascii (false, false, false,
              false, true, true, true, false)), (String ((Ascii (true, false,
              true, false, true, true, true, false)), (String ((Ascii (false,
              false, true, false, true, true, true, false)),
              EmptyString)))))))))) c)
     else true))) :: (((s_ (String ((Ascii (true, true, true, true, false,
                         true, true, false)), (String ((Ascii (true, true,
                         false, false, false, false, true, false)), (String
                         ((Ascii (false, false, false, false, true, true,
                         false, false)), (String ((Ascii (true, false, false,
                         true, true, true, false, false)), (String ((Ascii
                         (true, false, false, true, false, true, true,
                         false)), (String ((Ascii (false, false, true, false,
                         true, true, true, false)), (String ((Ascii (true,
                         false, true, false, false, true, true, false)),
                         (String ((Ascii (true, false, true, true, false,
                         true, true, false)), (String ((Ascii (true, true,
                         false, false, true, true, true, false)),
                         EmptyString))))))))))))))))))),
  (b2s
    (if e.e_opts.o_resolve_type
     then true
     else subseq_items (filter jsx_free (module_items input))
            (module_items real)))) :: (((s_ (String ((Ascii (true, true,
                                          true, true, false, true, true,
                                          false)), (String ((Ascii (true,
                                          true, false, false, false, false,
                                          true, false)), (String ((Ascii
                                          (false, false, false, false, true,
                                          true, false, false)), (String
                                          ((Ascii (true, false, false, true,
                                          true, true, false, false)), (String
                                          ((Ascii (true, true, false, false,
                                          true, true, true, false)), (String
                                          ((Ascii (false, false, true, false,
                                          true, true, true, false)), (String
                                          ((Ascii (true, false, true, true,
                                          false, true, true, false)), (String
                                          ((Ascii (false, false, true, false,
                                          true, true, true, false)), (String
                                          ((Ascii (true, true, false, false,
                                          true, true, true, false)),
                                          EmptyString))))))))))))))))))),
  (b2s (if e.e_opts.o_resolve_type then true else stmts_kept input real))) :: ((
  (s_ (String ((Ascii (false, true, false, true, false, true, true, false)),
    (String ((Ascii (true, true, false, false, true, true, true, false)),
    (String ((Ascii (false, false, false, true, true, true, true, false)),
    (String ((Ascii (false, true, true, false, false, true, true, false)),
    (String ((Ascii (false, true, false, false, true, true, true, false)),
    (String ((Ascii (true, false, true, false, false, true, true, false)),
    (String ((Ascii (true, false, true, false, false, true, true, false)),
    (String ((Ascii (true, true, true, true, true, false, true, false)),
    (String ((Ascii (true, false, false, true, false, true, true, false)),
    (String ((Ascii (false, true, true, true, false, true, true, false)),
    EmptyString))))))))))))))))))))),
  (b2s (jsx_free input))) :: (((s_ (String ((Ascii (true, true, false, false,
                                 true, true, true, false)), (String ((Ascii
                                 (true, false, false, false, false, true,
                                 true, false)), (String ((Ascii (true, false,
                                 true, true, false, true, true, false)),
                                 (String ((Ascii (true, false, true, false,
                                 false, true, true, false)), (String ((Ascii
                                 (true, true, true, true, true, false, true,
                                 false)), (String ((Ascii (true, false,
                                 false, true, false, true, true, false)),
                                 (String ((Ascii (false, true, true, true,
                                 false, true, true, false)),
                                 EmptyString))))))))))))))),
  (b2s
    (jv_eqb real_j
      (jfield_d (String ((Ascii (true, false, false, true, false, true, true,
        false)), (String ((Ascii (false, true, true, true, false, true, true,
        false)), (String ((Ascii (false, false, false, false, true, true,
        true, false)), (String ((Ascii (true, false, true, false, true, true,
        true, false)), (String ((Ascii (false, false, true, false, true,
        true, true, false)), EmptyString)))))))))) c)))) :: (((s_ (String
                                                                ((Ascii
                                                                (true, true,
                                                                true, true,
                                                                false, true,
                                                                true,
                                                                false)),
                                                                (String
                                                                ((Ascii
                                                                (true, true,
                                                                false, false,
                                                                false, false,
                                                                true,
                                                                false)),
                                                                (String
                                                                ((Ascii
                                                                (false,
                                                                false, false,
                                                                false, true,
                                                                true, false,
                                                                false)),
                                                                (String
                                                                ((Ascii
                                                                (true, false,
                                                                false, true,
                                                                true, true,
                                                                false,
                                                                false)),
                                                                (String
                                                                ((Ascii
                                                                (true, false,
                                                                false, true,
                                                                false, true,
                                                                true,
                                                                false)),
                                                                (String
                                                                ((Ascii
                                                                (false,
                                                                false, true,
                                                                false, false,
                                                                true, true,
                                                                false)),
                                                                (String
                                                                ((Ascii
                                                                (true, false,
                                                                true, false,
                                                                false, true,
                                                                true,
                                                                false)),
                                                                (String
                                                                ((Ascii
                                                                (true, false,
                                                                true, true,
                                                                false, true,
                                                                true,
                                                                false)),
                                                                EmptyString))))))))))))))))),
  (b2s
    (match rdiags with
     | [] ->
       jv_eqb
         (jfield_d (String ((Ascii (true, true, true, true, false, true,
           true, false)), (String ((Ascii (true, false, true, false, true,
           true, true, false)), (String ((Ascii (false, false, true, false,
           true, true, true, false)), (String ((Ascii (false, false, false,
           false, true, true, true, false)), (String ((Ascii (true, false,
           true, false, true, true, true, false)), (String ((Ascii (false,
           false, true, false, true, true, true, false)), (String ((Ascii
           (false, true, false, false, true, true, false, false)),
           EmptyString)))))))))))))) c) real_j
     | _ :: _ -> true))) :: (((s_ (String ((Ascii (true, false, false, false,
                                false, true, true, false)), (String ((Ascii
                                (false, false, true, true, false, true, true,
                                false)), (String ((Ascii (false, false, true,
                                false, true, true, true, false)), (String
                                ((Ascii (true, true, true, true, true, false,
                                true, false)), (String ((Ascii (true, true,
                                false, false, true, true, true, false)),
                                (String ((Ascii (true, false, false, false,
                                false, true, true, false)), (String ((Ascii
                                (true, false, true, true, false, true, true,
                                false)), (String ((Ascii (true, false, true,
                                false, false, true, true, false)),
                                EmptyString))))))))))))))))),
  (b2s
    (if alt_ok
     then (&&)
            (jv_eqb
              (jfield_d (String ((Ascii (true, true, true, true, false, true,
                true, false)), (String ((Ascii (true, false, true, false,
                true, true, true, false)), (String ((Ascii (false, false,
                true, false, true, true, true, false)), (String ((Ascii
                (false, false, false, false, true, true, true, false)),
                (String ((Ascii (true, false, true, false, true, true, true,
                false)), (String ((Ascii (false, false, true, false, true,
                true, true, false)), EmptyString)))))))))))) alt) real_j)
            (strs_eqb
              (sort_strs
                (jstrs
                  (jfield_d (String ((Ascii (false, false, true, false,
                    false, true, true, false)), (String ((Ascii (true, false,
                    false, true, false, true, true, false)), (String ((Ascii
                    (true, false, false, false, false, true, true, false)),
                    (String ((Ascii (true, true, true, false, false, true,
                    true, false)), (String ((Ascii (true, true, false, false,
                    true, true, true, false)), EmptyString)))))))))) alt)))
              (sort_strs rdiags))
     else true))) :: (((s_ (String ((Ascii (true, true, false, false, true,
                         true, true, false)), (String ((Ascii (true, false,
                         false, true, false, true, true, false)), (String
                         ((Ascii (false, false, true, false, true, true,
                         true, false)), (String ((Ascii (true, false, true,
                         false, false, true, true, false)),
                         EmptyString))))))))),
  (match find_site input with
   | Some el ->
     (match find_site real with
      | Some o ->
        (match app
                 (check_site e (S (S (S (S (S (S (S (S (S (S (S (S (S (S (S
                   (S (S (S (S (S (S (S (S (S (S (S (S (S (S (S (S (S (S (S
                   (S (S (S (S (S (S
                   O)))))))))))))))))))))))))))))))))))))))) el o)
                 (order_fail e el o) with
         | [] ->
           (Npos (Coq_xI (Coq_xO (Coq_xO (Coq_xO (Coq_xI Coq_xH)))))) :: []
         | s :: l ->
           join ((Npos (Coq_xO (Coq_xO (Coq_xI (Coq_xI (Coq_xO
             Coq_xH)))))) :: []) (s :: l))
      | None ->
        s_ (String ((Ascii (false, true, true, true, false, true, true,
          false)), (String ((Ascii (true, true, true, true, false, true,
          true, false)), (String ((Ascii (false, true, true, true, false,
          true, true, false)), (String ((Ascii (true, false, true, false,
          false, true, true, false)), EmptyString)))))))))
   | None ->
     s_ (String ((Ascii (false, true, true, true, false, true, true, false)),
       (String ((Ascii (true, true, true, true, false, true, true, false)),
       (String ((Ascii (false, true, true, true, false, true, true, false)),
       (String ((Ascii (true, false, true, false, false, true, true, false)),
       EmptyString)))))))))) :: (((s_ (String ((Ascii (true, true, false,
                                    false, true, true, true, false)), (String
                                    ((Ascii (true, false, false, true, false,
                                    true, true, false)), (String ((Ascii
                                    (false, false, true, false, true, true,
                                    true, false)), (String ((Ascii (true,
                                    false, true, false, false, true, true,
                                    false)), (String ((Ascii (true, true,
                                    true, true, true, false, true, false)),
                                    (String ((Ascii (true, false, true, true,
                                    false, true, true, false)), (String
                                    ((Ascii (true, true, true, true, false,
                                    true, true, false)), (String ((Ascii
                                    (false, false, true, false, false, true,
                                    true, false)), (String ((Ascii (true,
                                    false, true, false, false, true, true,
                                    false)), (String ((Ascii (false, false,
                                    true, true, false, true, true, false)),
                                    EmptyString))))))))))))))))))))),
  (match find_site input with
   | Some el ->
     (match find_site model with
      | Some o ->
        (match app
                 (check_site e (S (S (S (S (S (S (S (S (S (S (S (S (S (S (S
                   (S (S (S (S (S (S (S (S (S (S (S (S (S (S (S (S (S (S (S
                   (S (S (S (S (S (S
                   O)))))))))))))))))))))))))))))))))))))))) el o)
                 (order_fail e el o) with
         | [] ->
           (Npos (Coq_xI (Coq_xO (Coq_xO (Coq_xO (Coq_xI Coq_xH)))))) :: []
         | s :: l ->
           join ((Npos (Coq_xO (Coq_xO (Coq_xI (Coq_xI (Coq_xO
             Coq_xH)))))) :: []) (s :: l))
      | None ->
        s_ (String ((Ascii (false, true, true, true, false, true, true,
          false)), (String ((Ascii (true, true, true, true, false, true,
          true, false)), (String ((Ascii (false, true, true, true, false,
          true, true, false)), (String ((Ascii (true, false, true, false,
          false, true, true, false)), EmptyString)))))))))
   | None ->
     s_ (String ((Ascii (false, true, true, true, false, true, true, false)),
       (String ((Ascii (true, true, true, true, false, true, true, false)),
       (String ((Ascii (false, true, true, true, false, true, true, false)),
       (String ((Ascii (true, false, true, false, false, true, true, false)),
       EmptyString)))))))))) :: (((s_ (String ((Ascii (true, false, false,
                                    false, false, true, true, false)),
                                    (String ((Ascii (false, false, true,
                                    true, false, true, true, false)), (String
                                    ((Ascii (false, false, true, false, true,
                                    true, true, false)), (String ((Ascii
                                    (true, true, true, true, true, false,
                                    true, false)), (String ((Ascii (true,
                                    true, false, false, true, true, true,
                                    false)), (String ((Ascii (true, false,
                                    false, true, false, true, true, false)),
                                    (String ((Ascii (false, false, true,
                                    false, true, true, true, false)), (String
                                    ((Ascii (true, false, true, false, false,
                                    true, true, false)),
                                    EmptyString))))))))))))))))),
  (if alt_ok
   then (match find_site real with
         | Some a ->
           (match find_site
                    (dec
                      (jfield_d (String ((Ascii (true, true, true, true,
                        false, true, true, false)), (String ((Ascii (true,
                        false, true, false, true, true, true, false)),
                        (String ((Ascii (false, false, true, false, true,
                        true, true, false)), (String ((Ascii (false, false,
                        false, false, true, true, true, false)), (String
                        ((Ascii (true, false, true, false, true, true, true,
                        false)), (String ((Ascii (false, false, true, false,
                        true, true, true, false)), EmptyString))))))))))))
                        alt)) with
            | Some b ->
              b2s
                (jv_eqb (canon_in real_j (enc a))
                  (canon_in
                    (jfield_d (String ((Ascii (true, true, true, true, false,
                      true, true, false)), (String ((Ascii (true, false,
                      true, false, true, true, true, false)), (String ((Ascii
                      (false, false, true, false, true, true, true, false)),
                      (String ((Ascii (false, false, false, false, true,
                      true, true, false)), (String ((Ascii (true, false,
                      true, false, true, true, true, false)), (String ((Ascii
                      (false, false, true, false, true, true, true, false)),
                      EmptyString)))))))))))) alt) (enc b)))
            | None ->
              s_ (String ((Ascii (false, true, true, true, false, true, true,
                false)), (String ((Ascii (true, true, true, true, false,
                true, true, false)), (String ((Ascii (false, true, true,
                true, false, true, true, false)), (String ((Ascii (true,
                false, true, false, false, true, true, false)),
                EmptyString)))))))))
         | None ->
           s_ (String ((Ascii (false, true, true, true, false, true, true,
             false)), (String ((Ascii (true, true, true, true, false, true,
             true, false)), (String ((Ascii (false, true, true, true, false,
             true, true, false)), (String ((Ascii (true, false, true, false,
             false, true, true, false)), EmptyString)))))))))
   else s_ (String ((Ascii (false, true, true, true, false, true, true,
          false)), (String ((Ascii (true, true, true, true, false, true,
          true, false)), (String ((Ascii (false, true, true, true, false,
          true, true, false)), (String ((Ascii (true, false, true, false,
          false, true, true, false)), EmptyString)))))))))) :: (((s_ (String
                                                                   ((Ascii
                                                                   (true,
                                                                   false,
                                                                   false,
                                                                   false,
                                                                   false,
                                                                   true,
                                                                   true,
                                                                   false)),
                                                                   (String
                                                                   ((Ascii
                                                                   (false,
                                                                   false,
                                                                   true,
                                                                   true,
                                                                   false,
                                                                   true,
                                                                   true,
                                                                   false)),
                                                                   (String
                                                                   ((Ascii
                                                                   (false,
                                                                   false,
                                                                   true,
                                                                   false,
                                                                   true,
                                                                   true,
                                                                   true,
                                                                   false)),
                                                                   (String
                                                                   ((Ascii
                                                                   (true,
                                                                   true,
                                                                   true,
                                                                   true,
                                                                   true,
                                                                   false,
                                                                   true,
                                                                   false)),
                                                                   (String
                                                                   ((Ascii
                                                                   (true,
                                                                   true,
                                                                   false,
                                                                   false,
                                                                   true,
                                                                   true,
                                                                   true,
                                                                   false)),
                                                                   (String
                                                                   ((Ascii
                                                                   (false,
                                                                   false,
                                                                   true,
                                                                   false,
                                                                   true,
                                                                   true,
                                                                   true,
                                                                   false)),
                                                                   (String
                                                                   ((Ascii
                                                                   (false,
                                                                   true,
                                                                   false,
                                                                   false,
                                                                   true,
                                                                   true,
                                                                   true,
                                                                   false)),
                                                                   (String
                                                                   ((Ascii
                                                                   (true,
                                                                   false,
                                                                   false,
                                                                   true,
                                                                   false,
                                                                   true,
                                                                   true,
                                                                   false)),
                                                                   (String
                                                                   ((Ascii
                                                                   (false,
                                                                   false,
                                                                   false,
                                                                   false,
                                                                   true,
                                                                   true,
                                                                   true,
                                                                   false)),
                                                                   EmptyString))))))))))))))))))),
  (b2s
    (if alt_ok
     then jv_eqb (enc (strip_hints real))
            (jfield_d (String ((Ascii (true, true, true, true, false, true,
              true, false)), (String ((Ascii (true, false, true, false, true,
              true, true, false)), (String ((Ascii (false, false, true,
              false, true, true, true, false)), (String ((Ascii (false,
              false, false, false, true, true, true, false)), (String ((Ascii
              (true, false, true, false, true, true, true, false)), (String
              ((Ascii (false, false, true, false, true, true, true, false)),
              EmptyString)))))))))))) alt)
     else true))) :: (((s_ (String ((Ascii (false, false, true, false, true,
                         true, true, false)), (String ((Ascii (true, false,
                         false, true, true, true, true, false)), (String
                         ((Ascii (true, true, true, true, true, false, true,
                         false)), (String ((Ascii (true, true, true, false,
                         false, true, true, false)), (String ((Ascii (false,
                         true, false, false, true, true, true, false)),
                         (String ((Ascii (true, false, false, false, false,
                         true, true, false)), (String ((Ascii (true, false,
                         true, true, false, true, true, false)), (String
                         ((Ascii (true, false, true, true, false, true, true,
                         false)), (String ((Ascii (true, false, false, false,
                         false, true, true, false)), (String ((Ascii (false,
                         true, false, false, true, true, true, false)),
                         EmptyString))))))))))))))))))))),
  (if e.e_opts.o_resolve_type
   then let (p, bad) = grammar_cover e input in
        let (a, b) = p in
        app (dec_of_N a)
          (app ((Npos (Coq_xI (Coq_xI (Coq_xI (Coq_xI (Coq_xO
            Coq_xH)))))) :: [])
            (app (dec_of_N b)
              (app ((Npos (Coq_xI (Coq_xI (Coq_xI (Coq_xI (Coq_xO
                Coq_xH)))))) :: []) (dec_of_N bad))))
   else s_ (String ((Ascii (false, false, false, false, true, true, false,
          false)), (String ((Ascii (true, true, true, true, false, true,
          false, false)), (String ((Ascii (false, false, false, false, true,
          true, false, false)), (String ((Ascii (true, true, true, true,
          false, true, false, false)), (String ((Ascii (false, false, false,
          false, true, true, false, false)), EmptyString)))))))))))) :: []))))))))))))))))))))

(** val regex_table : jv -> str -> bool **)

let regex_table c p =
  existsb (fun x ->
    match x with
    | JArr l ->
      (match l with
       | [] -> false
       | j :: l0 ->
         (match j with
          | JStr q ->
            (match l0 with
             | [] -> false
             | j0 :: l1 ->
               (match j0 with
                | JBool b ->
                  (match l1 with
                   | [] -> (&&) (str_eqb p q) b
                   | _ :: _ -> false)
                | _ -> false))
          | _ -> false))
    | _ -> false)
    (jarr
      (jfield_d (String ((Ascii (false, true, false, false, true, true, true,
        false)), (String ((Ascii (true, false, true, false, false, true,
        true, false)), (String ((Ascii (true, true, true, false, false, true,
        true, false)), (String ((Ascii (true, false, true, false, false,
        true, true, false)), (String ((Ascii (false, false, false, true,
        true, true, true, false)), (String ((Ascii (true, true, true, true,
        true, false, true, false)), (String ((Ascii (false, true, true,
        false, true, true, true, false)), (String ((Ascii (true, false,
        false, false, false, true, true, false)), (String ((Ascii (false,
        false, true, true, false, true, true, false)), (String ((Ascii (true,
        false, false, true, false, true, true, false)), (String ((Ascii
        (false, false, true, false, false, true, true, false)),
        EmptyString)))))))))))))))))))))) c))

(** val opt_corr : jv -> bool **)

let opt_corr c =
  let parsed =
    parse_options (regex_table c)
      (jfield_d (String ((Ascii (true, true, true, true, false, true, true,
        false)), (String ((Ascii (false, false, false, false, true, true,
        true, false)), (String ((Ascii (false, false, true, false, true,
        true, true, false)), (String ((Ascii (true, false, false, true,
        false, true, true, false)), (String ((Ascii (true, true, true, true,
        false, true, true, false)), (String ((Ascii (false, true, true, true,
        false, true, true, false)), (String ((Ascii (true, true, false,
        false, true, true, true, false)), (String ((Ascii (true, true, true,
        true, true, false, true, false)), (String ((Ascii (false, true,
        false, true, false, true, true, false)), (String ((Ascii (true, true,
        false, false, true, true, true, false)), (String ((Ascii (true, true,
        true, true, false, true, true, false)), (String ((Ascii (false, true,
        true, true, false, true, true, false)),
        EmptyString)))))))))))))))))))))))) c)
  in
  (match jfield_d (String ((Ascii (true, true, false, false, true, true,
           true, false)), (String ((Ascii (false, false, true, false, true,
           true, true, false)), (String ((Ascii (true, false, false, false,
           false, true, true, false)), (String ((Ascii (false, false, true,
           false, true, true, true, false)), (String ((Ascii (true, false,
           true, false, true, true, true, false)), (String ((Ascii (true,
           true, false, false, true, true, true, false)),
           EmptyString)))))))))))) c with
   | JStr st0 ->
     if sq (String ((Ascii (false, true, false, false, false, true, true,
          false)), (String ((Ascii (true, false, false, false, false, true,
          true, false)), (String ((Ascii (false, false, true, false, false,
          true, true, false)), (String ((Ascii (true, false, true, true,
          false, true, false, false)), (String ((Ascii (true, true, true,
          true, false, true, true, false)), (String ((Ascii (false, false,
          false, false, true, true, true, false)), (String ((Ascii (false,
          false, true, false, true, true, true, false)), (String ((Ascii
          (true, false, false, true, false, true, true, false)), (String
          ((Ascii (true, true, true, true, false, true, true, false)),
          (String ((Ascii (false, true, true, true, false, true, true,
          false)), (String ((Ascii (true, true, false, false, true, true,
          true, false)), EmptyString)))))))))))))))))))))) st0
     then (match parsed with
           | Some _ -> false
           | None -> true)
     else (match parsed with
           | Some r ->
             let h =
               jfield_d (String ((Ascii (true, true, true, true, false, true,
                 true, false)), (String ((Ascii (false, false, false, false,
                 true, true, true, false)), (String ((Ascii (false, false,
                 true, false, true, true, true, false)), (String ((Ascii
                 (true, false, false, true, false, true, true, false)),
                 (String ((Ascii (true, true, true, true, false, true, true,
                 false)), (String ((Ascii (false, true, true, true, false,
                 true, true, false)), (String ((Ascii (true, true, false,
                 false, true, true, true, false)), EmptyString)))))))))))))) c
             in
             (&&)
               ((&&)
                 ((&&)
                   ((&&)
                     ((&&)
                       ((&&)
                         (eqb r.ro_transform_on
                           (jbool_d
                             (jfield_d (String ((Ascii (false, false, true,
                               false, true, true, true, false)), (String
                               ((Ascii (false, true, false, false, true,
                               true, true, false)), (String ((Ascii (true,
                               false, false, false, false, true, true,
                               false)), (String ((Ascii (false, true, true,
                               true, false, true, true, false)), (String
                               ((Ascii (true, true, false, false, true, true,
                               true, false)), (String ((Ascii (false, true,
                               true, false, false, true, true, false)),
                               (String ((Ascii (true, true, true, true,
                               false, true, true, false)), (String ((Ascii
                               (false, true, false, false, true, true, true,
                               false)), (String ((Ascii (true, false, true,
                               true, false, true, true, false)), (String
                               ((Ascii (true, true, true, true, false, false,
                               true, false)), (String ((Ascii (false, true,
                               true, true, false, true, true, false)),
                               EmptyString)))))))))))))))))))))) h)))
                         (eqb r.ro_optimize
                           (jbool_d
                             (jfield_d (String ((Ascii (true, true, true,
                               true, false, true, true, false)), (String
                               ((Ascii (false, false, false, false, true,
                               true, true, false)), (String ((Ascii (false,
                               false, true, false, true, true, true, false)),
                               (String ((Ascii (true, false, false, true,
                               false, true, true, false)), (String ((Ascii
                               (true, false, true, true, false, true, true,
                               false)), (String ((Ascii (true, false, false,
                               true, false, true, true, false)), (String
                               ((Ascii (false, true, false, true, true, true,
                               true, false)), (String ((Ascii (true, false,
                               true, false, false, true, true, false)),
                               EmptyString)))))))))))))))) h))))
                       (eqb r.ro_merge_props
                         (jbool_d
                           (jfield_d (String ((Ascii (true, false, true,
                             true, false, true, true, false)), (String
                             ((Ascii (true, false, true, false, false, true,
                             true, false)), (String ((Ascii (false, true,
                             false, false, true, true, true, false)), (String
                             ((Ascii (true, true, true, false, false, true,
                             true, false)), (String ((Ascii (true, false,
                             true, false, false, true, true, false)), (String
                             ((Ascii (false, false, false, false, true,
                             false, true, false)), (String ((Ascii (false,
                             true, false, false, true, true, true, false)),
                             (String ((Ascii (true, true, true, true, false,
                             true, true, false)), (String ((Ascii (false,
                             false, false, false, true, true, true, false)),
                             (String ((Ascii (true, true, false, false, true,
                             true, true, false)),
                             EmptyString)))))))))))))))))))) h))))
                     (eqb r.ro_object_slots
                       (jbool_d
                         (jfield_d (String ((Ascii (true, false, true, false,
                           false, true, true, false)), (String ((Ascii
                           (false, true, true, true, false, true, true,
                           false)), (String ((Ascii (true, false, false,
                           false, false, true, true, false)), (String ((Ascii
                           (false, true, false, false, false, true, true,
                           false)), (String ((Ascii (false, false, true,
                           true, false, true, true, false)), (String ((Ascii
                           (true, false, true, false, false, true, true,
                           false)), (String ((Ascii (true, true, true, true,
                           false, false, true, false)), (String ((Ascii
                           (false, true, false, false, false, true, true,
                           false)), (String ((Ascii (false, true, false,
                           true, false, true, true, false)), (String ((Ascii
                           (true, false, true, false, false, true, true,
                           false)), (String ((Ascii (true, true, false,
                           false, false, true, true, false)), (String ((Ascii
                           (false, false, true, false, true, true, true,
                           false)), (String ((Ascii (true, true, false,
                           false, true, false, true, false)), (String ((Ascii
                           (false, false, true, true, false, true, true,
                           false)), (String ((Ascii (true, true, true, true,
                           false, true, true, false)), (String ((Ascii
                           (false, false, true, false, true, true, true,
                           false)), (String ((Ascii (true, true, false,
                           false, true, true, true, false)),
                           EmptyString)))))))))))))))))))))))))))))))))) h))))
                   (eqb r.ro_resolve_type
                     (jbool_d
                       (jfield_d (String ((Ascii (false, true, false, false,
                         true, true, true, false)), (String ((Ascii (true,
                         false, true, false, false, true, true, false)),
                         (String ((Ascii (true, true, false, false, true,
                         true, true, false)), (String ((Ascii (true, true,
                         true, true, false, true, true, false)), (String
                         ((Ascii (false, false, true, true, false, true,
                         true, false)), (String ((Ascii (false, true, true,
                         false, true, true, true, false)), (String ((Ascii
                         (true, false, true, false, false, true, true,
                         false)), (String ((Ascii (false, false, true, false,
                         true, false, true, false)), (String ((Ascii (true,
                         false, false, true, true, true, true, false)),
                         (String ((Ascii (false, false, false, false, true,
                         true, true, false)), (String ((Ascii (true, false,
                         true, false, false, true, true, false)),
                         EmptyString)))))))))))))))))))))) h))))
                 (match r.ro_pragma with
                  | Some a ->
                    (match jstr
                             (jfield_d (String ((Ascii (false, false, false,
                               false, true, true, true, false)), (String
                               ((Ascii (false, true, false, false, true,
                               true, true, false)), (String ((Ascii (true,
                               false, false, false, false, true, true,
                               false)), (String ((Ascii (true, true, true,
                               false, false, true, true, false)), (String
                               ((Ascii (true, false, true, true, false, true,
                               true, false)), (String ((Ascii (true, false,
                               false, false, false, true, true, false)),
                               EmptyString)))))))))))) h) with
                     | Some b -> str_eqb a b
                     | None -> false)
                  | None ->
                    (match jstr
                             (jfield_d (String ((Ascii (false, false, false,
                               false, true, true, true, false)), (String
                               ((Ascii (false, true, false, false, true,
                               true, true, false)), (String ((Ascii (true,
                               false, false, false, false, true, true,
                               false)), (String ((Ascii (true, true, true,
                               false, false, true, true, false)), (String
                               ((Ascii (true, false, true, true, false, true,
                               true, false)), (String ((Ascii (true, false,
                               false, false, false, true, true, false)),
                               EmptyString)))))))))))) h) with
                     | Some _ -> false
                     | None -> true)))
               (strs_eqb r.ro_patterns
                 (jstrs
                   (jfield_d (String ((Ascii (false, false, false, false,
                     true, true, true, false)), (String ((Ascii (true, false,
                     false, false, false, true, true, false)), (String
                     ((Ascii (false, false, true, false, true, true, true,
                     false)), (String ((Ascii (false, false, true, false,
                     true, true, true, false)), (String ((Ascii (true, false,
                     true, false, false, true, true, false)), (String ((Ascii
                     (false, true, false, false, true, true, true, false)),
                     (String ((Ascii (false, true, true, true, false, true,
                     true, false)), (String ((Ascii (true, true, false,
                     false, true, true, true, false)),
                     EmptyString)))))))))))))))) h)))
           | None -> false)
   | _ -> true)

(** val run_case : jv -> case_result **)

let run_case c =
  let status =
    jfield_d (String ((Ascii (true, true, false, false, true, true, true,
      false)), (String ((Ascii (false, false, true, false, true, true, true,
      false)), (String ((Ascii (true, false, false, false, false, true, true,
      false)), (String ((Ascii (false, false, true, false, true, true, true,
      false)), (String ((Ascii (true, false, true, false, true, true, true,
      false)), (String ((Ascii (true, true, false, false, true, true, true,
      false)), EmptyString)))))))))))) c
  in
  let input =
    jfield_d (String ((Ascii (true, false, false, true, false, true, true,
      false)), (String ((Ascii (false, true, true, true, false, true, true,
      false)), (String ((Ascii (false, false, false, false, true, true, true,
      false)), (String ((Ascii (true, false, true, false, true, true, true,
      false)), (String ((Ascii (false, false, true, false, true, true, true,
      false)), EmptyString)))))))))) c
  in
  (match status with
   | JStr st0 ->
     if (||)
          (sq (String ((Ascii (true, true, true, true, false, true, true,
            false)), (String ((Ascii (true, true, false, true, false, true,
            true, false)), EmptyString)))) st0)
          (sq (String ((Ascii (false, false, false, false, true, true, true,
            false)), (String ((Ascii (true, false, false, false, false, true,
            true, false)), (String ((Ascii (false, true, true, true, false,
            true, true, false)), (String ((Ascii (true, false, false, true,
            false, true, true, false)), (String ((Ascii (true, true, false,
            false, false, true, true, false)), EmptyString)))))))))) st0)
     then let (mo, s) = model_run c in
          let real_ok =
            sq (String ((Ascii (true, true, true, true, false, true, true,
              false)), (String ((Ascii (true, true, false, true, false, true,
              true, false)), EmptyString)))) st0
          in
          { cr_relevant = true; cr_roundtrip =
          (jv_eqb (enc (dec input)) input); cr_same_status =
          (eqb real_ok (negb s.panicked)); cr_same_out =
          (if real_ok
           then jv_eqb mo
                  (jfield_d (String ((Ascii (true, true, true, true, false,
                    true, true, false)), (String ((Ascii (true, false, true,
                    false, true, true, true, false)), (String ((Ascii (false,
                    false, true, false, true, true, true, false)), (String
                    ((Ascii (false, false, false, false, true, true, true,
                    false)), (String ((Ascii (true, false, true, false, true,
                    true, true, false)), (String ((Ascii (false, false, true,
                    false, true, true, true, false)), EmptyString))))))))))))
                    c)
           else true); cr_same_diag =
          (strs_eqb (sort_strs s.diags)
            (sort_strs
              (jstrs
                (jfield_d (String ((Ascii (false, false, true, false, false,
                  true, true, false)), (String ((Ascii (true, false, false,
                  true, false, true, true, false)), (String ((Ascii (true,
                  false, false, false, false, true, true, false)), (String
                  ((Ascii (true, true, true, false, false, true, true,
                  false)), (String ((Ascii (true, true, false, false, true,
                  true, true, false)), EmptyString)))))))))) c))));
          cr_model_out = mo; cr_model_diags = s.diags; cr_extra =
          (((s_ (String ((Ascii (true, true, true, true, false, true, true,
              false)), (String ((Ascii (false, false, false, false, true,
              true, true, false)), (String ((Ascii (false, false, true,
              false, true, true, true, false)), (String ((Ascii (true, true,
              false, false, false, true, true, false)), (String ((Ascii
              (true, true, true, true, false, true, true, false)), (String
              ((Ascii (false, true, false, false, true, true, true, false)),
              (String ((Ascii (false, true, false, false, true, true, true,
              false)), EmptyString))))))))))))))),
          (b2s (opt_corr c))) :: (if real_ok then extras c mo else []));
          cr_views =
          (if real_ok
           then JObj
                  (((s_ (String ((Ascii (false, false, true, false, false,
                      true, true, false)), (String ((Ascii (true, true,
                      false, false, false, true, true, false)), (String
                      ((Ascii (true, true, true, true, true, false, true,
                      false)), (String ((Ascii (false, true, false, false,
                      true, true, true, false)), (String ((Ascii (true,
                      false, true, false, false, true, true, false)), (String
                      ((Ascii (true, false, false, false, false, true, true,
                      false)), (String ((Ascii (false, false, true, true,
                      false, true, true, false)), EmptyString))))))))))))))),
                  (view_dc
                    (dec
                      (jfield_d (String ((Ascii (true, true, true, true,
                        false, true, true, false)), (String ((Ascii (true,
                        false, true, false, true, true, true, false)),
                        (String ((Ascii (false, false, true, false, true,
                        true, true, false)), (String ((Ascii (false, false,
                        false, false, true, true, true, false)), (String
                        ((Ascii (true, false, true, false, true, true, true,
                        false)), (String ((Ascii (false, false, true, false,
                        true, true, true, false)), EmptyString)))))))))))) c)))) :: ((
                  (s_ (String ((Ascii (false, false, true, false, false,
                    true, true, false)), (String ((Ascii (true, true, false,
                    false, false, true, true, false)), (String ((Ascii (true,
                    true, true, true, true, false, true, false)), (String
                    ((Ascii (true, false, false, true, false, true, true,
                    false)), (String ((Ascii (false, true, true, true, false,
                    true, true, false)), (String ((Ascii (false, false,
                    false, false, true, true, true, false)), (String ((Ascii
                    (true, false, true, false, true, true, true, false)),
                    (String ((Ascii (false, false, true, false, true, true,
                    true, false)), EmptyString))))))))))))))))),
                  (view_dc
                    (dec
                      (jfield_d (String ((Ascii (true, false, false, true,
                        false, true, true, false)), (String ((Ascii (false,
                        true, true, true, false, true, true, false)), (String
                        ((Ascii (false, false, false, false, true, true,
                        true, false)), (String ((Ascii (true, false, true,
                        false, true, true, true, false)), (String ((Ascii
                        (false, false, true, false, true, true, true,
                        false)), EmptyString)))))))))) c)))) :: (((s_ (String
                                                                    ((Ascii
                                                                    (false,
                                                                    false,
                                                                    true,
                                                                    false,
                                                                    false,
                                                                    true,
                                                                    true,
                                                                    false)),
                                                                    (String
                                                                    ((Ascii
                                                                    (true,
                                                                    true,
                                                                    false,
                                                                    false,
                                                                    false,
                                                                    true,
                                                                    true,
                                                                    false)),
                                                                    (String
                                                                    ((Ascii
                                                                    (true,
                                                                    true,
                                                                    true,
                                                                    true,
                                                                    true,
                                                                    false,
                                                                    true,
                                                                    false)),
                                                                    (String
                                                                    ((Ascii
                                                                    (true,
                                                                    true,
                                                                    false,
                                                                    false,
                                                                    true,
                                                                    true,
                                                                    true,
                                                                    false)),
                                                                    (String
                                                                    ((Ascii
                                                                    (true,
                                                                    false,
                                                                    false,
                                                                    false,
                                                                    false,
                                                                    true,
                                                                    true,
                                                                    false)),
                                                                    (String
                                                                    ((Ascii
                                                                    (true,
                                                                    false,
                                                                    true,
                                                                    true,
                                                                    false,
                                                                    true,
                                                                    true,
                                                                    false)),
                                                                    (String
                                                                    ((Ascii
                                                                    (true,
                                                                    false,
                                                                    true,
                                                                    false,
                                                                    false,
                                                                    true,
                                                                    true,
                                                                    false)),
                                                                    EmptyString))))))))))))))),
                  (JBool
                  (jv_eqb
                    (view_dc
                      (dec
                        (jfield_d (String ((Ascii (true, true, true, true,
                          false, true, true, false)), (String ((Ascii (true,
                          false, true, false, true, true, true, false)),
                          (String ((Ascii (false, false, true, false, true,
                          true, true, false)), (String ((Ascii (false, false,
                          false, false, true, true, true, false)), (String
                          ((Ascii (true, false, true, false, true, true,
                          true, false)), (String ((Ascii (false, false, true,
                          false, true, true, true, false)),
                          EmptyString)))))))))))) c))) (view_dc (dec mo))))) :: [])))
           else JNull) }
     else { cr_relevant = false; cr_roundtrip = true; cr_same_status = true;
            cr_same_out = true; cr_same_diag = true; cr_model_out = JNull;
            cr_model_diags = []; cr_extra =
            (((s_ (String ((Ascii (true, true, true, true, false, true, true,
                false)), (String ((Ascii (false, false, false, false, true,
                true, true, false)), (String ((Ascii (false, false, true,
                false, true, true, true, false)), (String ((Ascii (true,
                true, false, false, false, true, true, false)), (String
                ((Ascii (true, true, true, true, false, true, true, false)),
                (String ((Ascii (false, true, false, false, true, true, true,
                false)), (String ((Ascii (false, true, false, false, true,
                true, true, false)), EmptyString))))))))))))))),
            (b2s (opt_corr c))) :: []); cr_views = JNull }
   | _ ->
     { cr_relevant = false; cr_roundtrip = true; cr_same_status = true;
       cr_same_out = true; cr_same_diag = true; cr_model_out = JNull;
       cr_model_diags = []; cr_extra = []; cr_views = JNull })
