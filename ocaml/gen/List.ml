open Datatypes

(** val hd : 'a1 -> 'a1 list -> 'a1 **)

let hd default = function
| [] -> default
| x :: _ -> x

(** val nth_error : 'a1 list -> nat -> 'a1 option **)

let rec nth_error l = function
| O -> (match l with
        | [] -> None
        | x :: _ -> Some x)
| S n0 -> (match l with
           | [] -> None
           | _ :: l0 -> nth_error l0 n0)

(** val last : 'a1 list -> 'a1 -> 'a1 **)

let rec last l d =
  match l with
  | [] -> d
  | a :: l0 -> (match l0 with
                | [] -> a
                | _ :: _ -> last l0 d)

(** val rev : 'a1 list -> 'a1 list **)

let rec rev = function
| [] -> []
| x :: l' -> app (rev l') (x :: [])

(** val map : ('a1 -> 'a2) -> 'a1 list -> 'a2 list **)

let rec map f = function
| [] -> []
| a :: t -> (f a) :: (map f t)

(** val flat_map : ('a1 -> 'a2 list) -> 'a1 list -> 'a2 list **)

let rec flat_map f = function
| [] -> []
| x :: t -> app (f x) (flat_map f t)

(** val fold_left : ('a1 -> 'a2 -> 'a1) -> 'a2 list -> 'a1 -> 'a1 **)

let rec fold_left f l a0 =
  match l with
  | [] -> a0
  | b :: t -> fold_left f t (f a0 b)

(** val fold_right : ('a2 -> 'a1 -> 'a1) -> 'a1 -> 'a2 list -> 'a1 **)

let rec fold_right f a0 = function
| [] -> a0
| b :: t -> f b (fold_right f a0 t)

(** val existsb : ('a1 -> bool) -> 'a1 list -> bool **)

let rec existsb f = function
| [] -> false
| a :: l0 -> (||) (f a) (existsb f l0)

(** val forallb : ('a1 -> bool) -> 'a1 list -> bool **)

let rec forallb f = function
| [] -> true
| a :: l0 -> (&&) (f a) (forallb f l0)

(** val filter : ('a1 -> bool) -> 'a1 list -> 'a1 list **)

let rec filter f = function
| [] -> []
| x :: l0 -> if f x then x :: (filter f l0) else filter f l0

(** val combine : 'a1 list -> 'a2 list -> ('a1 * 'a2) list **)

let rec combine l l' =
  match l with
  | [] -> []
  | x :: tl ->
    (match l' with
     | [] -> []
     | y :: tl' -> (x, y) :: (combine tl tl'))
