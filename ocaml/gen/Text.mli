open BinNums
open Str

val clean_line : bool -> bool -> str -> str

val clean_lines : bool -> str list -> str list

val transform_text : str -> str
