open Ascii
open Ast
open BinNat
open BinNums
open Datatypes
open Directive
open Json
open List
open State
open Str
open String
open Tables
open Text
open Util

val all_digits : str -> bool

val is_fragment_name : str -> bool

val tag_name_str : node -> str

val is_member_tag : node -> bool

val is_component : env -> node -> bool

val transform_tag : env -> node -> st -> node * st

val get_pragma : env -> st -> node * st

type acc = { a_props : node list; a_margs : node list; a_dyn : str list;
             a_dirs : directive list; a_slots : node option; a_ref : 
             bool; a_class : bool; a_style : bool; a_hyd : bool;
             a_dynkeys : bool; a_st : st }

val kv_str : str -> node -> node

val listener : node -> node

val attr_name_str : node -> str

val flush_obj : env -> node list -> node

val step_vmodel :
  bool -> acc -> node option -> node option -> node option -> node -> acc

val step_directive : bool -> acc -> node -> node -> acc

val plain_attr_value : node -> node option

val step_plain : env -> bool -> acc -> node -> node -> acc

val step_spread : env -> acc -> node -> acc

val attr_step : env -> bool -> acc -> node -> acc

val has_flag : coq_N -> coq_N -> bool

val compute_flags : acc -> coq_N

type attrs_result = { r_attrs : node; r_flags : coq_N;
                      r_dyn : str list option; r_slots : node option;
                      r_dirs : directive list; r_st : st }

val final_attrs_expr : env -> acc -> node * st

val transform_attrs : env -> node list -> bool -> st -> attrs_result

val slot_flag_num : bool -> coq_N

val merge_slots : node list -> node option -> node list

val hint_prop : env -> bool -> node list

val wrap_children : env -> node list -> bool -> node option -> node

val mk_capture : node -> coq_N -> str -> node

val build_iife_elems : str -> node list -> st -> node list * st

val build_iife : node list -> st -> node list * st

val generate_unique_slot_ident : st -> node * st

val slot_helper_ident : node

val is_fn_like : node -> bool

val is_bound_ident : env -> node -> bool

val mark_dynamic : env -> node -> st -> st

val transform_jsx_text : str -> st -> node option * st

val finish_children :
  env -> node list -> bool -> node option -> st -> node * st

val resolve_directive : str -> node -> node list -> st -> node * st

val opt_list : node option -> node list

val build_directives :
  directive list -> node -> node list -> st -> node list * st

val lower_children_with :
  env -> (node -> st -> node * st) -> node list -> st -> node list * st

val lower_attr_values_with :
  (node -> st -> node * st) -> node list -> st -> node list * st

val vnode_hints : env -> attrs_result -> node list

val push_slot_flag : env -> st -> st

val lower_el : env -> node -> st -> node * st
