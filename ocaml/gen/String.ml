open Ascii

type string =
| EmptyString
| String of ascii * string

(** val append : string -> string -> string **)

let rec append s1 s2 =
  match s1 with
  | EmptyString -> s2
  | String (c, s1') -> String (c, (append s1' s2))
