open Ascii
open BinNums
open Str
open String

val coq_PF_CLASS : coq_N

val coq_PF_STYLE : coq_N

val coq_PF_PROPS : coq_N

val coq_PF_FULL_PROPS : coq_N

val coq_PF_HYDRATE_EVENTS : coq_N

val coq_PF_NEED_PATCH : coq_N

val coq_SF_Stable : coq_N

val coq_SF_Dynamic : coq_N

val default_transform_on : bool

val default_optimize : bool

val default_merge_props : bool

val default_enable_object_slots : bool

val default_resolve_type : bool

val option_keys : str list

val html_tags : str list

val svg_tags : str list
