open Ascii
open Ast
open BinNums
open Datatypes
open Json
open List
open Lower
open State
open Str
open String
open Util

(** val split_at_vmodels :
    node list -> ((node list * node) * node list) option **)

let rec split_at_vmodels = function
| [] -> None
| a :: r ->
  (match a with
   | JAttr (name, v) ->
     (match name with
      | IdName k ->
        if sq (String ((Ascii (false, true, true, false, true, true, true,
             false)), (String ((Ascii (true, false, true, true, false, true,
             false, false)), (String ((Ascii (true, false, true, true, false,
             true, true, false)), (String ((Ascii (true, true, true, true,
             false, true, true, false)), (String ((Ascii (false, false, true,
             false, false, true, true, false)), (String ((Ascii (true, false,
             true, false, false, true, true, false)), (String ((Ascii (false,
             false, true, true, false, true, true, false)), (String ((Ascii
             (true, true, false, false, true, true, true, false)),
             EmptyString)))))))))))))))) k
        then Some (([], v), r)
        else (match split_at_vmodels r with
              | Some p ->
                let (p0, post) = p in
                let (pre, v') = p0 in Some (((a :: pre), v'), post)
              | None -> None)
      | _ ->
        (match split_at_vmodels r with
         | Some p ->
           let (p0, post) = p in
           let (pre, v') = p0 in Some (((a :: pre), v'), post)
         | None -> None))
   | _ ->
     (match split_at_vmodels r with
      | Some p ->
        let (p0, post) = p in
        let (pre, v') = p0 in Some (((a :: pre), v'), post)
      | None -> None))

(** val vmodels_msg : str **)

let vmodels_msg =
  s_ (String ((Ascii (true, false, false, true, true, true, true, false)),
    (String ((Ascii (true, true, true, true, false, true, true, false)),
    (String ((Ascii (true, false, true, false, true, true, true, false)),
    (String ((Ascii (false, false, false, false, false, true, false, false)),
    (String ((Ascii (true, true, false, false, true, true, true, false)),
    (String ((Ascii (false, false, false, true, false, true, true, false)),
    (String ((Ascii (true, true, true, true, false, true, true, false)),
    (String ((Ascii (true, false, true, false, true, true, true, false)),
    (String ((Ascii (false, false, true, true, false, true, true, false)),
    (String ((Ascii (false, false, true, false, false, true, true, false)),
    (String ((Ascii (false, false, false, false, false, true, false, false)),
    (String ((Ascii (false, false, false, false, true, true, true, false)),
    (String ((Ascii (true, false, false, false, false, true, true, false)),
    (String ((Ascii (true, true, false, false, true, true, true, false)),
    (String ((Ascii (true, true, false, false, true, true, true, false)),
    (String ((Ascii (false, false, false, false, false, true, false, false)),
    (String ((Ascii (true, false, false, false, false, true, true, false)),
    (String ((Ascii (false, false, false, false, false, true, false, false)),
    (String ((Ascii (false, false, true, false, true, false, true, false)),
    (String ((Ascii (true, true, true, false, true, true, true, false)),
    (String ((Ascii (true, true, true, true, false, true, true, false)),
    (String ((Ascii (true, false, true, true, false, true, false, false)),
    (String ((Ascii (false, false, true, false, false, true, true, false)),
    (String ((Ascii (true, false, false, true, false, true, true, false)),
    (String ((Ascii (true, false, true, true, false, true, true, false)),
    (String ((Ascii (true, false, true, false, false, true, true, false)),
    (String ((Ascii (false, true, true, true, false, true, true, false)),
    (String ((Ascii (true, true, false, false, true, true, true, false)),
    (String ((Ascii (true, false, false, true, false, true, true, false)),
    (String ((Ascii (true, true, true, true, false, true, true, false)),
    (String ((Ascii (false, true, true, true, false, true, true, false)),
    (String ((Ascii (true, false, false, false, false, true, true, false)),
    (String ((Ascii (false, false, true, true, false, true, true, false)),
    (String ((Ascii (false, false, false, false, false, true, false, false)),
    (String ((Ascii (true, false, false, false, false, false, true, false)),
    (String ((Ascii (false, true, false, false, true, true, true, false)),
    (String ((Ascii (false, true, false, false, true, true, true, false)),
    (String ((Ascii (true, false, false, false, false, true, true, false)),
    (String ((Ascii (true, false, false, true, true, true, true, false)),
    (String ((Ascii (true, true, false, false, true, true, true, false)),
    (String ((Ascii (false, false, false, false, false, true, false, false)),
    (String ((Ascii (false, false, true, false, true, true, true, false)),
    (String ((Ascii (true, true, true, true, false, true, true, false)),
    (String ((Ascii (false, false, false, false, false, true, false, false)),
    (String ((Ascii (false, true, true, false, true, true, true, false)),
    (String ((Ascii (true, false, true, true, false, true, false, false)),
    (String ((Ascii (true, false, true, true, false, true, true, false)),
    (String ((Ascii (true, true, true, true, false, true, true, false)),
    (String ((Ascii (false, false, true, false, false, true, true, false)),
    (String ((Ascii (true, false, true, false, false, true, true, false)),
    (String ((Ascii (false, false, true, true, false, true, true, false)),
    (String ((Ascii (true, true, false, false, true, true, true, false)),
    EmptyString))))))))))))))))))))))))))))))))))))))))))))))))))))))))))))))))))))))))))))))))))))))))))))))))))))))))

(** val decouple_attrs : node list -> st -> node list * st **)

let decouple_attrs attrs s =
  match split_at_vmodels attrs with
  | Some p ->
    let (p0, post) = p in
    let (pre, v) = p0 in
    (match v with
     | JExprC e ->
       (match e with
        | Arr elems -> ((app pre (app (decouple_v_models elems) post)), s)
        | _ ->
          ((app pre post), (set_diags (app s.diags (vmodels_msg :: [])) s)))
     | _ -> ((app pre post), (set_diags (app s.diags (vmodels_msg :: [])) s)))
  | None -> (attrs, s)

(** val pending_decls : st -> node list **)

let pending_decls s =
  app
    (match s.inj_vars with
     | [] -> []
     | n :: l ->
       (mk_var_decl (String ((Ascii (false, false, true, true, false, true,
         true, false)), (String ((Ascii (true, false, true, false, false,
         true, true, false)), (String ((Ascii (false, false, true, false,
         true, true, true, false)), EmptyString)))))) (n :: l)) :: [])
    (match s.inj_consts with
     | [] -> []
     | n :: l ->
       (mk_var_decl (String ((Ascii (true, true, false, false, false, true,
         true, false)), (String ((Ascii (true, true, true, true, false, true,
         true, false)), (String ((Ascii (false, true, true, true, false,
         true, true, false)), (String ((Ascii (true, true, false, false,
         true, true, true, false)), (String ((Ascii (false, false, true,
         false, true, true, true, false)), EmptyString)))))))))) (n :: l)) :: [])

(** val arrow_decls : st -> node list **)

let arrow_decls s =
  app
    (match s.inj_consts with
     | [] -> []
     | n :: l ->
       (mk_var_decl (String ((Ascii (true, true, false, false, false, true,
         true, false)), (String ((Ascii (true, true, true, true, false, true,
         true, false)), (String ((Ascii (false, true, true, true, false,
         true, true, false)), (String ((Ascii (true, true, false, false,
         true, true, true, false)), (String ((Ascii (false, false, true,
         false, true, true, true, false)), EmptyString)))))))))) (n :: l)) :: [])
    (match s.inj_vars with
     | [] -> []
     | n :: l ->
       (mk_var_decl (String ((Ascii (false, false, true, true, false, true,
         true, false)), (String ((Ascii (true, false, true, false, false,
         true, true, false)), (String ((Ascii (false, false, true, false,
         true, true, true, false)), EmptyString)))))) (n :: l)) :: [])

(** val enter_scope : st -> st **)

let enter_scope s =
  set_slot_counter (Npos Coq_xH) (set_inj_vars [] (set_inj_consts [] s))

(** val leave_scope : st -> st -> st **)

let leave_scope outer s =
  set_slot_counter outer.slot_counter
    (set_inj_vars outer.inj_vars (set_inj_consts outer.inj_consts s))

(** val is_block : node -> bool **)

let is_block = function
| Block (_, _) -> true
| _ -> false

(** val find_define_component : node list -> coq_N option **)

let rec find_define_component = function
| [] -> None
| sp :: r ->
  let here =
    if sq (String ((Ascii (true, false, false, true, false, false, true,
         false)), (String ((Ascii (true, false, true, true, false, true,
         true, false)), (String ((Ascii (false, false, false, false, true,
         true, true, false)), (String ((Ascii (true, true, true, true, false,
         true, true, false)), (String ((Ascii (false, true, false, false,
         true, true, true, false)), (String ((Ascii (false, false, true,
         false, true, true, true, false)), (String ((Ascii (true, true,
         false, false, true, false, true, false)), (String ((Ascii (false,
         false, false, false, true, true, true, false)), (String ((Ascii
         (true, false, true, false, false, true, true, false)), (String
         ((Ascii (true, true, false, false, false, true, true, false)),
         (String ((Ascii (true, false, false, true, false, true, true,
         false)), (String ((Ascii (false, true, true, false, false, true,
         true, false)), (String ((Ascii (true, false, false, true, false,
         true, true, false)), (String ((Ascii (true, false, true, false,
         false, true, true, false)), (String ((Ascii (false, true, false,
         false, true, true, true, false)),
         EmptyString)))))))))))))))))))))))))))))) (ntype sp)
    then (match nfield (String ((Ascii (false, false, true, true, false,
                  true, true, false)), (String ((Ascii (true, true, true,
                  true, false, true, true, false)), (String ((Ascii (true,
                  true, false, false, false, true, true, false)), (String
                  ((Ascii (true, false, false, false, false, true, true,
                  false)), (String ((Ascii (false, false, true, true, false,
                  true, true, false)), EmptyString)))))))))) sp with
          | Some n ->
            (match n with
             | NScalar _ -> None
             | NArr _ -> None
             | NObj _ -> None
             | Field (_, _) -> None
             | Ident (sym, c, _) ->
               (match nfield (String ((Ascii (true, false, false, true,
                        false, true, true, false)), (String ((Ascii (true,
                        false, true, true, false, true, true, false)),
                        (String ((Ascii (false, false, false, false, true,
                        true, true, false)), (String ((Ascii (true, true,
                        true, true, false, true, true, false)), (String
                        ((Ascii (false, true, false, false, true, true, true,
                        false)), (String ((Ascii (false, false, true, false,
                        true, true, true, false)), (String ((Ascii (true,
                        false, true, false, false, true, true, false)),
                        (String ((Ascii (false, false, true, false, false,
                        true, true, false)), EmptyString)))))))))))))))) sp with
                | Some n0 ->
                  (match n0 with
                   | NScalar j ->
                     (match j with
                      | JNull ->
                        if sq (String ((Ascii (false, false, true, false,
                             false, true, true, false)), (String ((Ascii
                             (true, false, true, false, false, true, true,
                             false)), (String ((Ascii (false, true, true,
                             false, false, true, true, false)), (String
                             ((Ascii (true, false, false, true, false, true,
                             true, false)), (String ((Ascii (false, true,
                             true, true, false, true, true, false)), (String
                             ((Ascii (true, false, true, false, false, true,
                             true, false)), (String ((Ascii (true, true,
                             false, false, false, false, true, false)),
                             (String ((Ascii (true, true, true, true, false,
                             true, true, false)), (String ((Ascii (true,
                             false, true, true, false, true, true, false)),
                             (String ((Ascii (false, false, false, false,
                             true, true, true, false)), (String ((Ascii
                             (true, true, true, true, false, true, true,
                             false)), (String ((Ascii (false, true, true,
                             true, false, true, true, false)), (String
                             ((Ascii (true, false, true, false, false, true,
                             true, false)), (String ((Ascii (false, true,
                             true, true, false, true, true, false)), (String
                             ((Ascii (false, false, true, false, true, true,
                             true, false)),
                             EmptyString)))))))))))))))))))))))))))))) sym
                        then Some c
                        else None
                      | _ -> None)
                   | _ -> None)
                | None -> None)
             | _ -> None)
          | None -> None)
    else None
  in
  (match here with
   | Some c -> Some c
   | None -> find_define_component r)

(** val post_import : node -> st -> st **)

let post_import n s =
  match nfield (String ((Ascii (true, true, false, false, true, true, true,
          false)), (String ((Ascii (true, true, true, true, false, true,
          true, false)), (String ((Ascii (true, false, true, false, true,
          true, true, false)), (String ((Ascii (false, true, false, false,
          true, true, true, false)), (String ((Ascii (true, true, false,
          false, false, true, true, false)), (String ((Ascii (true, false,
          true, false, false, true, true, false)), EmptyString)))))))))))) n with
  | Some n0 ->
    (match n0 with
     | Str (v, _) ->
       if sq (String ((Ascii (false, true, true, false, true, true, true,
            false)), (String ((Ascii (true, false, true, false, true, true,
            true, false)), (String ((Ascii (true, false, true, false, false,
            true, true, false)), EmptyString)))))) v
       then (match nfield (String ((Ascii (true, true, false, false, true,
                     true, true, false)), (String ((Ascii (false, false,
                     false, false, true, true, true, false)), (String ((Ascii
                     (true, false, true, false, false, true, true, false)),
                     (String ((Ascii (true, true, false, false, false, true,
                     true, false)), (String ((Ascii (true, false, false,
                     true, false, true, true, false)), (String ((Ascii
                     (false, true, true, false, false, true, true, false)),
                     (String ((Ascii (true, false, false, true, false, true,
                     true, false)), (String ((Ascii (true, false, true,
                     false, false, true, true, false)), (String ((Ascii
                     (false, true, false, false, true, true, true, false)),
                     (String ((Ascii (true, true, false, false, true, true,
                     true, false)), EmptyString)))))))))))))))))))) n with
             | Some n1 ->
               (match n1 with
                | NArr specs ->
                  (match find_define_component specs with
                   | Some c -> set_define_component (Some c) s
                   | None -> s)
                | _ -> s)
             | None -> s)
       else s
     | _ -> s)
  | None -> s

type mode =
| MExpr
| MNoLower
| MSwitch
| MStmts

(** val visit_list_with :
    (mode -> node -> st -> node * st) -> mode -> node list -> st -> node
    list * st **)

let rec visit_list_with rec0 m l s =
  match l with
  | [] -> ([], s)
  | x :: r ->
    let (x', s0) = rec0 m x s in
    let (r', s1) = visit_list_with rec0 m r s0 in ((x' :: r'), s1)

(** val jsx_item_mode : node -> mode **)

let jsx_item_mode = function
| JsxE (_, _, _, _, _, _) -> MNoLower
| JsxF _ -> MNoLower
| _ -> MExpr

(** val visit_jsx_list_with :
    (mode -> node -> st -> node * st) -> node list -> st -> node list * st **)

let rec visit_jsx_list_with rec0 l s =
  match l with
  | [] -> ([], s)
  | x :: r ->
    let (x', s0) = rec0 (jsx_item_mode x) x s in
    let (r', s1) = visit_jsx_list_with rec0 r s0 in ((x' :: r'), s1)

(** val visit_stmts_with :
    (mode -> node -> st -> node * st) -> node list -> st -> node list * st **)

let visit_stmts_with rec0 stmts s =
  let s0 = enter_scope s in
  let (stmts', s1) = visit_list_with rec0 MExpr stmts s0 in
  ((app (pending_decls s1) stmts'), (leave_scope s s1))

(** val visit :
    env -> (node -> st -> node * st) -> (node -> st -> node * st) -> mode ->
    node -> st -> node * st **)

let rec visit e hook_call hook_declarator m n s =
  match n with
  | NArr l ->
    (match m with
     | MStmts ->
       let (l', s0) = visit_stmts_with (visit e hook_call hook_declarator) l s
       in
       ((NArr l'), s0)
     | _ ->
       let (l', s0) =
         visit_list_with (visit e hook_call hook_declarator) MExpr l s
       in
       ((NArr l'), s0))
  | NObj fields ->
    if sq (String ((Ascii (true, true, false, false, true, false, true,
         false)), (String ((Ascii (true, true, true, false, true, true, true,
         false)), (String ((Ascii (true, false, false, true, false, true,
         true, false)), (String ((Ascii (false, false, true, false, true,
         true, true, false)), (String ((Ascii (true, true, false, false,
         false, true, true, false)), (String ((Ascii (false, false, false,
         true, false, true, true, false)), (String ((Ascii (true, true,
         false, false, false, false, true, false)), (String ((Ascii (true,
         false, false, false, false, true, true, false)), (String ((Ascii
         (true, true, false, false, true, true, true, false)), (String
         ((Ascii (true, false, true, false, false, true, true, false)),
         EmptyString)))))))))))))))))))) (ntype n)
    then let (fields', s0) =
           visit_list_with (visit e hook_call hook_declarator) MSwitch fields
             s
         in
         ((NObj fields'), s0)
    else let (fields', s0) =
           visit_list_with (visit e hook_call hook_declarator) MExpr fields s
         in
         let n' = NObj fields' in
         let ty = ntype n in
         if sq (String ((Ascii (true, false, false, true, false, false, true,
              false)), (String ((Ascii (true, false, true, true, false, true,
              true, false)), (String ((Ascii (false, false, false, false,
              true, true, true, false)), (String ((Ascii (true, true, true,
              true, false, true, true, false)), (String ((Ascii (false, true,
              false, false, true, true, true, false)), (String ((Ascii
              (false, false, true, false, true, true, true, false)), (String
              ((Ascii (false, false, true, false, false, false, true,
              false)), (String ((Ascii (true, false, true, false, false,
              true, true, false)), (String ((Ascii (true, true, false, false,
              false, true, true, false)), (String ((Ascii (false, false,
              true, true, false, true, true, false)), (String ((Ascii (true,
              false, false, false, false, true, true, false)), (String
              ((Ascii (false, true, false, false, true, true, true, false)),
              (String ((Ascii (true, false, false, false, false, true, true,
              false)), (String ((Ascii (false, false, true, false, true,
              true, true, false)), (String ((Ascii (true, false, false, true,
              false, true, true, false)), (String ((Ascii (true, true, true,
              true, false, true, true, false)), (String ((Ascii (false, true,
              true, true, false, true, true, false)),
              EmptyString)))))))))))))))))))))))))))))))))) ty
         then (n', (post_import n' s0))
         else if sq (String ((Ascii (false, true, true, false, true, false,
                   true, false)), (String ((Ascii (true, false, false, false,
                   false, true, true, false)), (String ((Ascii (false, true,
                   false, false, true, true, true, false)), (String ((Ascii
                   (true, false, false, true, false, true, true, false)),
                   (String ((Ascii (true, false, false, false, false, true,
                   true, false)), (String ((Ascii (false, true, false, false,
                   false, true, true, false)), (String ((Ascii (false, false,
                   true, true, false, true, true, false)), (String ((Ascii
                   (true, false, true, false, false, true, true, false)),
                   (String ((Ascii (false, false, true, false, false, false,
                   true, false)), (String ((Ascii (true, false, true, false,
                   false, true, true, false)), (String ((Ascii (true, true,
                   false, false, false, true, true, false)), (String ((Ascii
                   (false, false, true, true, false, true, true, false)),
                   (String ((Ascii (true, false, false, false, false, true,
                   true, false)), (String ((Ascii (false, true, false, false,
                   true, true, true, false)), (String ((Ascii (true, false,
                   false, false, false, true, true, false)), (String ((Ascii
                   (false, false, true, false, true, true, true, false)),
                   (String ((Ascii (true, true, true, true, false, true,
                   true, false)), (String ((Ascii (false, true, false, false,
                   true, true, true, false)),
                   EmptyString)))))))))))))))))))))))))))))))))))) ty
              then hook_declarator n' s0
              else (n', s0)
  | Field (k, v) ->
    let m' =
      match m with
      | MSwitch ->
        if sq (String ((Ascii (true, true, false, false, false, true, true,
             false)), (String ((Ascii (true, true, true, true, false, true,
             true, false)), (String ((Ascii (false, true, true, true, false,
             true, true, false)), (String ((Ascii (true, true, false, false,
             true, true, true, false)), (String ((Ascii (true, false, true,
             false, false, true, true, false)), (String ((Ascii (true, false,
             false, false, true, true, true, false)), (String ((Ascii (true,
             false, true, false, true, true, true, false)), (String ((Ascii
             (true, false, true, false, false, true, true, false)), (String
             ((Ascii (false, true, true, true, false, true, true, false)),
             (String ((Ascii (false, false, true, false, true, true, true,
             false)), EmptyString)))))))))))))))))))) k
        then MStmts
        else MExpr
      | _ -> MExpr
    in
    let (v', s0) = visit e hook_call hook_declarator m' v s in
    ((Field (k, v')), s0)
  | BIdent (sym, c, o, t) ->
    let (t', s0) = visit e hook_call hook_declarator MExpr t s in
    ((BIdent (sym, c, o, t')), s0)
  | Arr elems ->
    let (e', s0) =
      visit_list_with (visit e hook_call hook_declarator) MExpr elems s
    in
    ((Arr e'), s0)
  | Elem (sp, e0) ->
    let (e', s0) = visit e hook_call hook_declarator MExpr e0 s in
    ((Elem (sp, e')), s0)
  | Obj props ->
    let (p', s0) =
      visit_list_with (visit e hook_call hook_declarator) MExpr props s
    in
    ((Obj p'), s0)
  | KV (k, v) ->
    let (k', s0) = visit e hook_call hook_declarator MExpr k s in
    let (v', s1) = visit e hook_call hook_declarator MExpr v s0 in
    ((KV (k', v')), s1)
  | Computed e0 ->
    let (e', s0) = visit e hook_call hook_declarator MExpr e0 s in
    ((Computed e'), s0)
  | Spread e0 ->
    let (e', s0) = visit e hook_call hook_declarator MExpr e0 s in
    ((Spread e'), s0)
  | Call (sy, c, f, args, ta) ->
    let (f', s0) = visit e hook_call hook_declarator MExpr f s in
    let (args', s1) =
      visit_list_with (visit e hook_call hook_declarator) MExpr args s0
    in
    hook_call (Call (sy, c, f', args', ta)) s1
  | Arrow (c, params, body, a, g, tp, rt) ->
    let (params', s0) =
      visit_list_with (visit e hook_call hook_declarator) MExpr params s
    in
    let s1 = enter_scope s0 in
    let (body', s2) = visit e hook_call hook_declarator MExpr body s1 in
    let body'' =
      match arrow_decls s2 with
      | [] -> body'
      | n0 :: l ->
        if is_block body'
        then body'
        else Block (N0, (app (n0 :: l) ((mk_return body') :: [])))
    in
    let s3 = leave_scope s0 s2 in
    ((Arrow (c, params', body'', a, g, tp, rt)), s3)
  | Assign (op, l, r) ->
    (match l with
     | BIdent (sym, _, _, _) ->
       let outer = s.assign_left in
       let s0 = set_assign_left (Some sym) s in
       let (l', s1) = visit e hook_call hook_declarator MExpr l s0 in
       let (r', s2) = visit e hook_call hook_declarator MExpr r s1 in
       ((Assign (op, l', r')), (set_assign_left outer s2))
     | _ ->
       let (l', s0) = visit e hook_call hook_declarator MExpr l s in
       let (r', s1) = visit e hook_call hook_declarator MExpr r s0 in
       ((Assign (op, l', r')), s1))
  | Paren e0 ->
    let (e', s0) = visit e hook_call hook_declarator MExpr e0 s in
    ((Paren e'), s0)
  | Cond (t, c, a) ->
    let (t', s0) = visit e hook_call hook_declarator MExpr t s in
    let (c', s1) = visit e hook_call hook_declarator MExpr c s0 in
    let (a', s2) = visit e hook_call hook_declarator MExpr a s1 in
    ((Cond (t', c', a')), s2)
  | Bin (op, l, r) ->
    let (l', s0) = visit e hook_call hook_declarator MExpr l s in
    let (r', s1) = visit e hook_call hook_declarator MExpr r s0 in
    ((Bin (op, l', r')), s1)
  | Unary (op, a) ->
    let (a', s0) = visit e hook_call hook_declarator MExpr a s in
    ((Unary (op, a')), s0)
  | Member (o, p) ->
    let (o', s0) = visit e hook_call hook_declarator MExpr o s in
    let (p', s1) = visit e hook_call hook_declarator MExpr p s0 in
    ((Member (o', p')), s1)
  | Block (c, stmts) ->
    let (stmts', s0) =
      visit_stmts_with (visit e hook_call hook_declarator) stmts s
    in
    ((Block (c, stmts')), s0)
  | JsxE (name, attrs, sc, ta, children, closing) ->
    let (attrs', s0) =
      visit_jsx_list_with (visit e hook_call hook_declarator) attrs s
    in
    let (attrs'0, s1) = decouple_attrs attrs' s0 in
    let (children', s2) =
      visit_jsx_list_with (visit e hook_call hook_declarator) children s1
    in
    let n' = JsxE (name, attrs'0, sc, ta, children', closing) in
    (match m with
     | MNoLower -> (n', s2)
     | _ -> lower_el e n' s2)
  | JsxF children ->
    let (children', s0) =
      visit_jsx_list_with (visit e hook_call hook_declarator) children s
    in
    let n' = JsxF children' in
    (match m with
     | MNoLower -> (n', s0)
     | _ -> lower_el e n' s0)
  | JAttr (nm, v) ->
    let (v', s0) = visit e hook_call hook_declarator (jsx_item_mode v) v s in
    ((JAttr (nm, v')), s0)
  | JExprC e0 ->
    let (e', s0) = visit e hook_call hook_declarator MExpr e0 s in
    ((JExprC e'), s0)
  | JSpreadChild e0 ->
    let (e', s0) = visit e hook_call hook_declarator MExpr e0 s in
    ((JSpreadChild e'), s0)
  | _ -> (n, s)

(** val pragma_in_text : nat -> str -> str option **)

let rec pragma_in_text fuel t =
  match fuel with
  | O -> None
  | S f ->
    (match t with
     | [] -> None
     | _ :: t' ->
       (match strip_prefix
                (s_ (String ((Ascii (false, false, false, false, false,
                  false, true, false)), (String ((Ascii (false, true, false,
                  true, false, true, true, false)), (String ((Ascii (true,
                  true, false, false, true, true, true, false)), (String
                  ((Ascii (false, false, false, true, true, true, true,
                  false)), EmptyString))))))))) t with
        | Some rest ->
          (match rest with
           | [] -> None
           | c :: _ ->
             if is_ws c
             then (match first_word rest with
                   | Some w -> Some w
                   | None -> pragma_in_text f t')
             else pragma_in_text f t')
        | None -> pragma_in_text f t'))

(** val pragma_of_comment : str -> str option **)

let pragma_of_comment t =
  pragma_in_text (S (length t)) t

(** val pragma_of_group : str list -> str option **)

let rec pragma_of_group = function
| [] -> None
| c :: r ->
  (match pragma_of_comment c with
   | Some p -> Some p
   | None -> pragma_of_group r)

(** val search_pragmas : str list list -> st -> st **)

let search_pragmas groups s =
  fold_left (fun s0 g ->
    match pragma_of_group g with
    | Some p -> set_pragma (Some p) s0
    | None -> s0) groups s

(** val mk_import_spec : str -> node **)

let mk_import_spec name =
  gobj (String ((Ascii (true, false, false, true, false, false, true,
    false)), (String ((Ascii (true, false, true, true, false, true, true,
    false)), (String ((Ascii (false, false, false, false, true, true, true,
    false)), (String ((Ascii (true, true, true, true, false, true, true,
    false)), (String ((Ascii (false, true, false, false, true, true, true,
    false)), (String ((Ascii (false, false, true, false, true, true, true,
    false)), (String ((Ascii (true, true, false, false, true, false, true,
    false)), (String ((Ascii (false, false, false, false, true, true, true,
    false)), (String ((Ascii (true, false, true, false, false, true, true,
    false)), (String ((Ascii (true, true, false, false, false, true, true,
    false)), (String ((Ascii (true, false, false, true, false, true, true,
    false)), (String ((Ascii (false, true, true, false, false, true, true,
    false)), (String ((Ascii (true, false, false, true, false, true, true,
    false)), (String ((Ascii (true, false, true, false, false, true, true,
    false)), (String ((Ascii (false, true, false, false, true, true, true,
    false)), EmptyString))))))))))))))))))))))))))))))
    ((fld (String ((Ascii (false, false, true, true, false, true, true,
       false)), (String ((Ascii (true, true, true, true, false, true, true,
       false)), (String ((Ascii (true, true, false, false, false, true, true,
       false)), (String ((Ascii (true, false, false, false, false, true,
       true, false)), (String ((Ascii (false, false, true, true, false, true,
       true, false)), EmptyString))))))))))
       (mk_ident ((Npos (Coq_xI (Coq_xI (Coq_xI (Coq_xI (Coq_xI (Coq_xO
         Coq_xH))))))) :: name) (helper_ctx name))) :: ((fld (String ((Ascii
                                                          (true, false,
                                                          false, true, false,
                                                          true, true,
                                                          false)), (String
                                                          ((Ascii (true,
                                                          false, true, true,
                                                          false, true, true,
                                                          false)), (String
                                                          ((Ascii (false,
                                                          false, false,
                                                          false, true, true,
                                                          true, false)),
                                                          (String ((Ascii
                                                          (true, true, true,
                                                          true, false, true,
                                                          true, false)),
                                                          (String ((Ascii
                                                          (false, true,
                                                          false, false, true,
                                                          true, true,
                                                          false)), (String
                                                          ((Ascii (false,
                                                          false, true, false,
                                                          true, true, true,
                                                          false)), (String
                                                          ((Ascii (true,
                                                          false, true, false,
                                                          false, true, true,
                                                          false)), (String
                                                          ((Ascii (false,
                                                          false, true, false,
                                                          false, true, true,
                                                          false)),
                                                          EmptyString))))))))))))))))
                                                          (mk_ident name N0)) :: (
    (fld (String ((Ascii (true, false, false, true, false, true, true,
      false)), (String ((Ascii (true, true, false, false, true, true, true,
      false)), (String ((Ascii (false, false, true, false, true, false, true,
      false)), (String ((Ascii (true, false, false, true, true, true, true,
      false)), (String ((Ascii (false, false, false, false, true, true, true,
      false)), (String ((Ascii (true, false, true, false, false, true, true,
      false)), (String ((Ascii (true, true, true, true, false, false, true,
      false)), (String ((Ascii (false, true, true, true, false, true, true,
      false)), (String ((Ascii (false, false, true, true, false, true, true,
      false)), (String ((Ascii (true, false, false, true, true, true, true,
      false)), EmptyString)))))))))))))))))))) (sc_bool false)) :: [])))

(** val mk_import : node list -> string -> node **)

let mk_import specs src =
  gobj (String ((Ascii (true, false, false, true, false, false, true,
    false)), (String ((Ascii (true, false, true, true, false, true, true,
    false)), (String ((Ascii (false, false, false, false, true, true, true,
    false)), (String ((Ascii (true, true, true, true, false, true, true,
    false)), (String ((Ascii (false, true, false, false, true, true, true,
    false)), (String ((Ascii (false, false, true, false, true, true, true,
    false)), (String ((Ascii (false, false, true, false, false, false, true,
    false)), (String ((Ascii (true, false, true, false, false, true, true,
    false)), (String ((Ascii (true, true, false, false, false, true, true,
    false)), (String ((Ascii (false, false, true, true, false, true, true,
    false)), (String ((Ascii (true, false, false, false, false, true, true,
    false)), (String ((Ascii (false, true, false, false, true, true, true,
    false)), (String ((Ascii (true, false, false, false, false, true, true,
    false)), (String ((Ascii (false, false, true, false, true, true, true,
    false)), (String ((Ascii (true, false, false, true, false, true, true,
    false)), (String ((Ascii (true, true, true, true, false, true, true,
    false)), (String ((Ascii (false, true, true, true, false, true, true,
    false)), EmptyString))))))))))))))))))))))))))))))))))
    ((fld (String ((Ascii (true, true, false, false, true, true, true,
       false)), (String ((Ascii (false, false, false, false, true, true,
       true, false)), (String ((Ascii (true, false, true, false, false, true,
       true, false)), (String ((Ascii (true, true, false, false, false, true,
       true, false)), (String ((Ascii (true, false, false, true, false, true,
       true, false)), (String ((Ascii (false, true, true, false, false, true,
       true, false)), (String ((Ascii (true, false, false, true, false, true,
       true, false)), (String ((Ascii (true, false, true, false, false, true,
       true, false)), (String ((Ascii (false, true, false, false, true, true,
       true, false)), (String ((Ascii (true, true, false, false, true, true,
       true, false)), EmptyString)))))))))))))))))))) (NArr specs)) :: (
    (fld (String ((Ascii (true, true, false, false, true, true, true,
      false)), (String ((Ascii (true, true, true, true, false, true, true,
      false)), (String ((Ascii (true, false, true, false, true, true, true,
      false)), (String ((Ascii (false, true, false, false, true, true, true,
      false)), (String ((Ascii (true, true, false, false, false, true, true,
      false)), (String ((Ascii (true, false, true, false, false, true, true,
      false)), EmptyString)))))))))))) (mk_strS src)) :: ((fld (String
                                                            ((Ascii (false,
                                                            false, true,
                                                            false, true,
                                                            true, true,
                                                            false)), (String
                                                            ((Ascii (true,
                                                            false, false,
                                                            true, true, true,
                                                            true, false)),
                                                            (String ((Ascii
                                                            (false, false,
                                                            false, false,
                                                            true, true, true,
                                                            false)), (String
                                                            ((Ascii (true,
                                                            false, true,
                                                            false, false,
                                                            true, true,
                                                            false)), (String
                                                            ((Ascii (true,
                                                            true, true, true,
                                                            false, false,
                                                            true, false)),
                                                            (String ((Ascii
                                                            (false, true,
                                                            true, true,
                                                            false, true,
                                                            true, false)),
                                                            (String ((Ascii
                                                            (false, false,
                                                            true, true,
                                                            false, true,
                                                            true, false)),
                                                            (String ((Ascii
                                                            (true, false,
                                                            false, true,
                                                            true, true, true,
                                                            false)),
                                                            EmptyString))))))))))))))))
                                                            (sc_bool false)) :: (
    (fld (String ((Ascii (true, true, true, false, true, true, true, false)),
      (String ((Ascii (true, false, false, true, false, true, true, false)),
      (String ((Ascii (false, false, true, false, true, true, true, false)),
      (String ((Ascii (false, false, false, true, false, true, true, false)),
      EmptyString)))))))) nnull) :: ((fld (String ((Ascii (false, false,
                                       false, false, true, true, true,
                                       false)), (String ((Ascii (false,
                                       false, false, true, false, true, true,
                                       false)), (String ((Ascii (true, false,
                                       false, false, false, true, true,
                                       false)), (String ((Ascii (true, true,
                                       false, false, true, true, true,
                                       false)), (String ((Ascii (true, false,
                                       true, false, false, true, true,
                                       false)), EmptyString))))))))))
                                       (sc_str (String ((Ascii (true, false,
                                         true, false, false, true, true,
                                         false)), (String ((Ascii (false,
                                         true, true, false, true, true, true,
                                         false)), (String ((Ascii (true,
                                         false, false, false, false, true,
                                         true, false)), (String ((Ascii
                                         (false, false, true, true, false,
                                         true, true, false)), (String ((Ascii
                                         (true, false, true, false, true,
                                         true, true, false)), (String ((Ascii
                                         (true, false, false, false, false,
                                         true, true, false)), (String ((Ascii
                                         (false, false, true, false, true,
                                         true, true, false)), (String ((Ascii
                                         (true, false, false, true, false,
                                         true, true, false)), (String ((Ascii
                                         (true, true, true, true, false,
                                         true, true, false)), (String ((Ascii
                                         (false, true, true, true, false,
                                         true, true, false)),
                                         EmptyString)))))))))))))))))))))) :: [])))))

(** val finish_module : node list -> st -> node list * st **)

let finish_module items s =
  let items0 =
    match s.inj_consts with
    | [] -> items
    | n :: l ->
      (mk_var_decl (String ((Ascii (true, true, false, false, false, true,
        true, false)), (String ((Ascii (true, true, true, true, false, true,
        true, false)), (String ((Ascii (false, true, true, true, false, true,
        true, false)), (String ((Ascii (true, true, false, false, true, true,
        true, false)), (String ((Ascii (false, false, true, false, true,
        true, true, false)), EmptyString)))))))))) (n :: l)) :: items
  in
  let s0 = set_inj_consts [] s in
  (match s0.inj_vars with
   | [] ->
     if s0.slot_helper
     then let (isv, s1) =
            import_from_vue (String ((Ascii (true, false, false, true, false,
              true, true, false)), (String ((Ascii (true, true, false, false,
              true, true, true, false)), (String ((Ascii (false, true, true,
              false, true, false, true, false)), (String ((Ascii (false,
              true, true, true, false, false, true, false)), (String ((Ascii
              (true, true, true, true, false, true, true, false)), (String
              ((Ascii (false, false, true, false, false, true, true, false)),
              (String ((Ascii (true, false, true, false, false, true, true,
              false)), EmptyString)))))))))))))) s0
          in
          let (p, s2) =
            fresh_ident
              (s_ (String ((Ascii (true, true, false, false, true, true,
                true, false)), EmptyString))) s1
          in
          let (_, ctx) = p in
          let items1 = (build_slot_helper slot_helper_ident isv ctx) :: items0
          in
          let items2 =
            if s2.ton_helper
            then (mk_import
                   ((gobj (String ((Ascii (true, false, false, true, false,
                      false, true, false)), (String ((Ascii (true, false,
                      true, true, false, true, true, false)), (String ((Ascii
                      (false, false, false, false, true, true, true, false)),
                      (String ((Ascii (true, true, true, true, false, true,
                      true, false)), (String ((Ascii (false, true, false,
                      false, true, true, true, false)), (String ((Ascii
                      (false, false, true, false, true, true, true, false)),
                      (String ((Ascii (false, false, true, false, false,
                      false, true, false)), (String ((Ascii (true, false,
                      true, false, false, true, true, false)), (String
                      ((Ascii (false, true, true, false, false, true, true,
                      false)), (String ((Ascii (true, false, false, false,
                      false, true, true, false)), (String ((Ascii (true,
                      false, true, false, true, true, true, false)), (String
                      ((Ascii (false, false, true, true, false, true, true,
                      false)), (String ((Ascii (false, false, true, false,
                      true, true, true, false)), (String ((Ascii (true, true,
                      false, false, true, false, true, false)), (String
                      ((Ascii (false, false, false, false, true, true, true,
                      false)), (String ((Ascii (true, false, true, false,
                      false, true, true, false)), (String ((Ascii (true,
                      true, false, false, false, true, true, false)), (String
                      ((Ascii (true, false, false, true, false, true, true,
                      false)), (String ((Ascii (false, true, true, false,
                      false, true, true, false)), (String ((Ascii (true,
                      false, false, true, false, true, true, false)), (String
                      ((Ascii (true, false, true, false, false, true, true,
                      false)), (String ((Ascii (false, true, false, false,
                      true, true, true, false)),
                      EmptyString))))))))))))))))))))))))))))))))))))))))))))
                      ((fld (String ((Ascii (false, false, true, true, false,
                         true, true, false)), (String ((Ascii (true, true,
                         true, true, false, true, true, false)), (String
                         ((Ascii (true, true, false, false, false, true,
                         true, false)), (String ((Ascii (true, false, false,
                         false, false, true, true, false)), (String ((Ascii
                         (false, false, true, true, false, true, true,
                         false)), EmptyString))))))))))
                         (mk_ident
                           (s_ (String ((Ascii (true, true, true, true, true,
                             false, true, false)), (String ((Ascii (false,
                             false, true, false, true, true, true, false)),
                             (String ((Ascii (false, true, false, false,
                             true, true, true, false)), (String ((Ascii
                             (true, false, false, false, false, true, true,
                             false)), (String ((Ascii (false, true, true,
                             true, false, true, true, false)), (String
                             ((Ascii (true, true, false, false, true, true,
                             true, false)), (String ((Ascii (false, true,
                             true, false, false, true, true, false)), (String
                             ((Ascii (true, true, true, true, false, true,
                             true, false)), (String ((Ascii (false, true,
                             false, false, true, true, true, false)), (String
                             ((Ascii (true, false, true, true, false, true,
                             true, false)), (String ((Ascii (true, true,
                             true, true, false, false, true, false)), (String
                             ((Ascii (false, true, true, true, false, true,
                             true, false)),
                             EmptyString))))))))))))))))))))))))) ton_ctx)) :: [])) :: [])
                   (String ((Ascii (false, false, false, false, false, false,
                   true, false)), (String ((Ascii (false, true, true, false,
                   true, true, true, false)), (String ((Ascii (true, false,
                   true, false, true, true, true, false)), (String ((Ascii
                   (true, false, true, false, false, true, true, false)),
                   (String ((Ascii (true, true, true, true, false, true,
                   false, false)), (String ((Ascii (false, true, false,
                   false, false, true, true, false)), (String ((Ascii (true,
                   false, false, false, false, true, true, false)), (String
                   ((Ascii (false, true, false, false, false, true, true,
                   false)), (String ((Ascii (true, false, true, false, false,
                   true, true, false)), (String ((Ascii (false, false, true,
                   true, false, true, true, false)), (String ((Ascii (true,
                   false, true, true, false, true, false, false)), (String
                   ((Ascii (false, false, false, true, false, true, true,
                   false)), (String ((Ascii (true, false, true, false, false,
                   true, true, false)), (String ((Ascii (false, false, true,
                   true, false, true, true, false)), (String ((Ascii (false,
                   false, false, false, true, true, true, false)), (String
                   ((Ascii (true, false, true, false, false, true, true,
                   false)), (String ((Ascii (false, true, false, false, true,
                   true, true, false)), (String ((Ascii (true, false, true,
                   true, false, true, false, false)), (String ((Ascii (false,
                   true, true, false, true, true, true, false)), (String
                   ((Ascii (true, false, true, false, true, true, true,
                   false)), (String ((Ascii (true, false, true, false, false,
                   true, true, false)), (String ((Ascii (true, false, true,
                   true, false, true, false, false)), (String ((Ascii (false,
                   false, true, false, true, true, true, false)), (String
                   ((Ascii (false, true, false, false, true, true, true,
                   false)), (String ((Ascii (true, false, false, false,
                   false, true, true, false)), (String ((Ascii (false, true,
                   true, true, false, true, true, false)), (String ((Ascii
                   (true, true, false, false, true, true, true, false)),
                   (String ((Ascii (false, true, true, false, false, true,
                   true, false)), (String ((Ascii (true, true, true, true,
                   false, true, true, false)), (String ((Ascii (false, true,
                   false, false, true, true, true, false)), (String ((Ascii
                   (true, false, true, true, false, true, true, false)),
                   (String ((Ascii (true, false, true, true, false, true,
                   false, false)), (String ((Ascii (true, true, true, true,
                   false, true, true, false)), (String ((Ascii (false, true,
                   true, true, false, true, true, false)),
                   EmptyString))))))))))))))))))))))))))))))))))))))))))))))))))))))))))))))))))))) :: items1
            else items1
          in
          let items3 =
            match s2.imports with
            | [] -> items2
            | s3 :: l ->
              (mk_import (map mk_import_spec (s3 :: l)) (String ((Ascii
                (false, true, true, false, true, true, true, false)), (String
                ((Ascii (true, false, true, false, true, true, true, false)),
                (String ((Ascii (true, false, true, false, false, true, true,
                false)), EmptyString))))))) :: items2
          in
          (items3, s2)
     else let items1 =
            if s0.ton_helper
            then (mk_import
                   ((gobj (String ((Ascii (true, false, false, true, false,
                      false, true, false)), (String ((Ascii (true, false,
                      true, true, false, true, true, false)), (String ((Ascii
                      (false, false, false, false, true, true, true, false)),
                      (String ((Ascii (true, true, true, true, false, true,
                      true, false)), (String ((Ascii (false, true, false,
                      false, true, true, true, false)), (String ((Ascii
                      (false, false, true, false, true, true, true, false)),
                      (String ((Ascii (false, false, true, false, false,
                      false, true, false)), (String ((Ascii (true, false,
                      true, false, false, true, true, false)), (String
                      ((Ascii (false, true, true, false, false, true, true,
                      false)), (String ((Ascii (true, false, false, false,
                      false, true, true, false)), (String ((Ascii (true,
                      false, true, false, true, true, true, false)), (String
                      ((Ascii (false, false, true, true, false, true, true,
                      false)), (String ((Ascii (false, false, true, false,
                      true, true, true, false)), (String ((Ascii (true, true,
                      false, false, true, false, true, false)), (String
                      ((Ascii (false, false, false, false, true, true, true,
                      false)), (String ((Ascii (true, false, true, false,
                      false, true, true, false)), (String ((Ascii (true,
                      true, false, false, false, true, true, false)), (String
                      ((Ascii (true, false, false, true, false, true, true,
                      false)), (String ((Ascii (false, true, true, false,
                      false, true, true, false)), (String ((Ascii (true,
                      false, false, true, false, true, true, false)), (String
                      ((Ascii (true, false, true, false, false, true, true,
                      false)), (String ((Ascii (false, true, false, false,
                      true, true, true, false)),
                      EmptyString))))))))))))))))))))))))))))))))))))))))))))
                      ((fld (String ((Ascii (false, false, true, true, false,
                         true, true, false)), (String ((Ascii (true, true,
                         true, true, false, true, true, false)), (String
                         ((Ascii (true, true, false, false, false, true,
                         true, false)), (String ((Ascii (true, false, false,
                         false, false, true, true, false)), (String ((Ascii
                         (false, false, true, true, false, true, true,
                         false)), EmptyString))))))))))
                         (mk_ident
                           (s_ (String ((Ascii (true, true, true, true, true,
                             false, true, false)), (String ((Ascii (false,
                             false, true, false, true, true, true, false)),
                             (String ((Ascii (false, true, false, false,
                             true, true, true, false)), (String ((Ascii
                             (true, false, false, false, false, true, true,
                             false)), (String ((Ascii (false, true, true,
                             true, false, true, true, false)), (String
                             ((Ascii (true, true, false, false, true, true,
                             true, false)), (String ((Ascii (false, true,
                             true, false, false, true, true, false)), (String
                             ((Ascii (true, true, true, true, false, true,
                             true, false)), (String ((Ascii (false, true,
                             false, false, true, true, true, false)), (String
                             ((Ascii (true, false, true, true, false, true,
                             true, false)), (String ((Ascii (true, true,
                             true, true, false, false, true, false)), (String
                             ((Ascii (false, true, true, true, false, true,
                             true, false)),
                             EmptyString))))))))))))))))))))))))) ton_ctx)) :: [])) :: [])
                   (String ((Ascii (false, false, false, false, false, false,
                   true, false)), (String ((Ascii (false, true, true, false,
                   true, true, true, false)), (String ((Ascii (true, false,
                   true, false, true, true, true, false)), (String ((Ascii
                   (true, false, true, false, false, true, true, false)),
                   (String ((Ascii (true, true, true, true, false, true,
                   false, false)), (String ((Ascii (false, true, false,
                   false, false, true, true, false)), (String ((Ascii (true,
                   false, false, false, false, true, true, false)), (String
                   ((Ascii (false, true, false, false, false, true, true,
                   false)), (String ((Ascii (true, false, true, false, false,
                   true, true, false)), (String ((Ascii (false, false, true,
                   true, false, true, true, false)), (String ((Ascii (true,
                   false, true, true, false, true, false, false)), (String
                   ((Ascii (false, false, false, true, false, true, true,
                   false)), (String ((Ascii (true, false, true, false, false,
                   true, true, false)), (String ((Ascii (false, false, true,
                   true, false, true, true, false)), (String ((Ascii (false,
                   false, false, false, true, true, true, false)), (String
                   ((Ascii (true, false, true, false, false, true, true,
                   false)), (String ((Ascii (false, true, false, false, true,
                   true, true, false)), (String ((Ascii (true, false, true,
                   true, false, true, false, false)), (String ((Ascii (false,
                   true, true, false, true, true, true, false)), (String
                   ((Ascii (true, false, true, false, true, true, true,
                   false)), (String ((Ascii (true, false, true, false, false,
                   true, true, false)), (String ((Ascii (true, false, true,
                   true, false, true, false, false)), (String ((Ascii (false,
                   false, true, false, true, true, true, false)), (String
                   ((Ascii (false, true, false, false, true, true, true,
                   false)), (String ((Ascii (true, false, false, false,
                   false, true, true, false)), (String ((Ascii (false, true,
                   true, true, false, true, true, false)), (String ((Ascii
                   (true, true, false, false, true, true, true, false)),
                   (String ((Ascii (false, true, true, false, false, true,
                   true, false)), (String ((Ascii (true, true, true, true,
                   false, true, true, false)), (String ((Ascii (false, true,
                   false, false, true, true, true, false)), (String ((Ascii
                   (true, false, true, true, false, true, true, false)),
                   (String ((Ascii (true, false, true, true, false, true,
                   false, false)), (String ((Ascii (true, true, true, true,
                   false, true, true, false)), (String ((Ascii (false, true,
                   true, true, false, true, true, false)),
                   EmptyString))))))))))))))))))))))))))))))))))))))))))))))))))))))))))))))))))))) :: items0
            else items0
          in
          let items2 =
            match s0.imports with
            | [] -> items1
            | s1 :: l ->
              (mk_import (map mk_import_spec (s1 :: l)) (String ((Ascii
                (false, true, true, false, true, true, true, false)), (String
                ((Ascii (true, false, true, false, true, true, true, false)),
                (String ((Ascii (true, false, true, false, false, true, true,
                false)), EmptyString))))))) :: items1
          in
          (items2, s0)
   | n :: l ->
     let items1 =
       (mk_var_decl (String ((Ascii (false, false, true, true, false, true,
         true, false)), (String ((Ascii (true, false, true, false, false,
         true, true, false)), (String ((Ascii (false, false, true, false,
         true, true, true, false)), EmptyString)))))) (n :: l)) :: items0
     in
     let s1 = set_slot_counter (Npos Coq_xH) (set_inj_vars [] s0) in
     if s1.slot_helper
     then let (isv, s2) =
            import_from_vue (String ((Ascii (true, false, false, true, false,
              true, true, false)), (String ((Ascii (true, true, false, false,
              true, true, true, false)), (String ((Ascii (false, true, true,
              false, true, false, true, false)), (String ((Ascii (false,
              true, true, true, false, false, true, false)), (String ((Ascii
              (true, true, true, true, false, true, true, false)), (String
              ((Ascii (false, false, true, false, false, true, true, false)),
              (String ((Ascii (true, false, true, false, false, true, true,
              false)), EmptyString)))))))))))))) s1
          in
          let (p, s3) =
            fresh_ident
              (s_ (String ((Ascii (true, true, false, false, true, true,
                true, false)), EmptyString))) s2
          in
          let (_, ctx) = p in
          let items2 = (build_slot_helper slot_helper_ident isv ctx) :: items1
          in
          let items3 =
            if s3.ton_helper
            then (mk_import
                   ((gobj (String ((Ascii (true, false, false, true, false,
                      false, true, false)), (String ((Ascii (true, false,
                      true, true, false, true, true, false)), (String ((Ascii
                      (false, false, false, false, true, true, true, false)),
                      (String ((Ascii (true, true, true, true, false, true,
                      true, false)), (String ((Ascii (false, true, false,
                      false, true, true, true, false)), (String ((Ascii
                      (false, false, true, false, true, true, true, false)),
                      (String ((Ascii (false, false, true, false, false,
                      false, true, false)), (String ((Ascii (true, false,
                      true, false, false, true, true, false)), (String
                      ((Ascii (false, true, true, false, false, true, true,
                      false)), (String ((Ascii (true, false, false, false,
                      false, true, true, false)), (String ((Ascii (true,
                      false, true, false, true, true, true, false)), (String
                      ((Ascii (false, false, true, true, false, true, true,
                      false)), (String ((Ascii (false, false, true, false,
                      true, true, true, false)), (String ((Ascii (true, true,
                      false, false, true, false, true, false)), (String
                      ((Ascii (false, false, false, false, true, true, true,
                      false)), (String ((Ascii (true, false, true, false,
                      false, true, true, false)), (String ((Ascii (true,
                      true, false, false, false, true, true, false)), (String
                      ((Ascii (true, false, false, true, false, true, true,
                      false)), (String ((Ascii (false, true, true, false,
                      false, true, true, false)), (String ((Ascii (true,
                      false, false, true, false, true, true, false)), (String
                      ((Ascii (true, false, true, false, false, true, true,
                      false)), (String ((Ascii (false, true, false, false,
                      true, true, true, false)),
                      EmptyString))))))))))))))))))))))))))))))))))))))))))))
                      ((fld (String ((Ascii (false, false, true, true, false,
                         true, true, false)), (String ((Ascii (true, true,
                         true, true, false, true, true, false)), (String
                         ((Ascii (true, true, false, false, false, true,
                         true, false)), (String ((Ascii (true, false, false,
                         false, false, true, true, false)), (String ((Ascii
                         (false, false, true, true, false, true, true,
                         false)), EmptyString))))))))))
                         (mk_ident
                           (s_ (String ((Ascii (true, true, true, true, true,
                             false, true, false)), (String ((Ascii (false,
                             false, true, false, true, true, true, false)),
                             (String ((Ascii (false, true, false, false,
                             true, true, true, false)), (String ((Ascii
                             (true, false, false, false, false, true, true,
                             false)), (String ((Ascii (false, true, true,
                             true, false, true, true, false)), (String
                             ((Ascii (true, true, false, false, true, true,
                             true, false)), (String ((Ascii (false, true,
                             true, false, false, true, true, false)), (String
                             ((Ascii (true, true, true, true, false, true,
                             true, false)), (String ((Ascii (false, true,
                             false, false, true, true, true, false)), (String
                             ((Ascii (true, false, true, true, false, true,
                             true, false)), (String ((Ascii (true, true,
                             true, true, false, false, true, false)), (String
                             ((Ascii (false, true, true, true, false, true,
                             true, false)),
                             EmptyString))))))))))))))))))))))))) ton_ctx)) :: [])) :: [])
                   (String ((Ascii (false, false, false, false, false, false,
                   true, false)), (String ((Ascii (false, true, true, false,
                   true, true, true, false)), (String ((Ascii (true, false,
                   true, false, true, true, true, false)), (String ((Ascii
                   (true, false, true, false, false, true, true, false)),
                   (String ((Ascii (true, true, true, true, false, true,
                   false, false)), (String ((Ascii (false, true, false,
                   false, false, true, true, false)), (String ((Ascii (true,
                   false, false, false, false, true, true, false)), (String
                   ((Ascii (false, true, false, false, false, true, true,
                   false)), (String ((Ascii (true, false, true, false, false,
                   true, true, false)), (String ((Ascii (false, false, true,
                   true, false, true, true, false)), (String ((Ascii (true,
                   false, true, true, false, true, false, false)), (String
                   ((Ascii (false, false, false, true, false, true, true,
                   false)), (String ((Ascii (true, false, true, false, false,
                   true, true, false)), (String ((Ascii (false, false, true,
                   true, false, true, true, false)), (String ((Ascii (false,
                   false, false, false, true, true, true, false)), (String
                   ((Ascii (true, false, true, false, false, true, true,
                   false)), (String ((Ascii (false, true, false, false, true,
                   true, true, false)), (String ((Ascii (true, false, true,
                   true, false, true, false, false)), (String ((Ascii (false,
                   true, true, false, true, true, true, false)), (String
                   ((Ascii (true, false, true, false, true, true, true,
                   false)), (String ((Ascii (true, false, true, false, false,
                   true, true, false)), (String ((Ascii (true, false, true,
                   true, false, true, false, false)), (String ((Ascii (false,
                   false, true, false, true, true, true, false)), (String
                   ((Ascii (false, true, false, false, true, true, true,
                   false)), (String ((Ascii (true, false, false, false,
                   false, true, true, false)), (String ((Ascii (false, true,
                   true, true, false, true, true, false)), (String ((Ascii
                   (true, true, false, false, true, true, true, false)),
                   (String ((Ascii (false, true, true, false, false, true,
                   true, false)), (String ((Ascii (true, true, true, true,
                   false, true, true, false)), (String ((Ascii (false, true,
                   false, false, true, true, true, false)), (String ((Ascii
                   (true, false, true, true, false, true, true, false)),
                   (String ((Ascii (true, false, true, true, false, true,
                   false, false)), (String ((Ascii (true, true, true, true,
                   false, true, true, false)), (String ((Ascii (false, true,
                   true, true, false, true, true, false)),
                   EmptyString))))))))))))))))))))))))))))))))))))))))))))))))))))))))))))))))))))) :: items2
            else items2
          in
          let items4 =
            match s3.imports with
            | [] -> items3
            | s4 :: l0 ->
              (mk_import (map mk_import_spec (s4 :: l0)) (String ((Ascii
                (false, true, true, false, true, true, true, false)), (String
                ((Ascii (true, false, true, false, true, true, true, false)),
                (String ((Ascii (true, false, true, false, false, true, true,
                false)), EmptyString))))))) :: items3
          in
          (items4, s3)
     else let items2 =
            if s1.ton_helper
            then (mk_import
                   ((gobj (String ((Ascii (true, false, false, true, false,
                      false, true, false)), (String ((Ascii (true, false,
                      true, true, false, true, true, false)), (String ((Ascii
                      (false, false, false, false, true, true, true, false)),
                      (String ((Ascii (true, true, true, true, false, true,
                      true, false)), (String ((Ascii (false, true, false,
                      false, true, true, true, false)), (String ((Ascii
                      (false, false, true, false, true, true, true, false)),
                      (String ((Ascii (false, false, true, false, false,
                      false, true, false)), (String ((Ascii (true, false,
                      true, false, false, true, true, false)), (String
                      ((Ascii (false, true, true, false, false, true, true,
                      false)), (String ((Ascii (true, false, false, false,
                      false, true, true, false)), (String ((Ascii (true,
                      false, true, false, true, true, true, false)), (String
                      ((Ascii (false, false, true, true, false, true, true,
                      false)), (String ((Ascii (false, false, true, false,
                      true, true, true, false)), (String ((Ascii (true, true,
                      false, false, true, false, true, false)), (String
                      ((Ascii (false, false, false, false, true, true, true,
                      false)), (String ((Ascii (true, false, true, false,
                      false, true, true, false)), (String ((Ascii (true,
                      true, false, false, false, true, true, false)), (String
                      ((Ascii (true, false, false, true, false, true, true,
                      false)), (String ((Ascii (false, true, true, false,
                      false, true, true, false)), (String ((Ascii (true,
                      false, false, true, false, true, true, false)), (String
                      ((Ascii (true, false, true, false, false, true, true,
                      false)), (String ((Ascii (false, true, false, false,
                      true, true, true, false)),
                      EmptyString))))))))))))))))))))))))))))))))))))))))))))
                      ((fld (String ((Ascii (false, false, true, true, false,
                         true, true, false)), (String ((Ascii (true, true,
                         true, true, false, true, true, false)), (String
                         ((Ascii (true, true, false, false, false, true,
                         true, false)), (String ((Ascii (true, false, false,
                         false, false, true, true, false)), (String ((Ascii
                         (false, false, true, true, false, true, true,
                         false)), EmptyString))))))))))
                         (mk_ident
                           (s_ (String ((Ascii (true, true, true, true, true,
                             false, true, false)), (String ((Ascii (false,
                             false, true, false, true, true, true, false)),
                             (String ((Ascii (false, true, false, false,
                             true, true, true, false)), (String ((Ascii
                             (true, false, false, false, false, true, true,
                             false)), (String ((Ascii (false, true, true,
                             true, false, true, true, false)), (String
                             ((Ascii (true, true, false, false, true, true,
                             true, false)), (String ((Ascii (false, true,
                             true, false, false, true, true, false)), (String
                             ((Ascii (true, true, true, true, false, true,
                             true, false)), (String ((Ascii (false, true,
                             false, false, true, true, true, false)), (String
                             ((Ascii (true, false, true, true, false, true,
                             true, false)), (String ((Ascii (true, true,
                             true, true, false, false, true, false)), (String
                             ((Ascii (false, true, true, true, false, true,
                             true, false)),
                             EmptyString))))))))))))))))))))))))) ton_ctx)) :: [])) :: [])
                   (String ((Ascii (false, false, false, false, false, false,
                   true, false)), (String ((Ascii (false, true, true, false,
                   true, true, true, false)), (String ((Ascii (true, false,
                   true, false, true, true, true, false)), (String ((Ascii
                   (true, false, true, false, false, true, true, false)),
                   (String ((Ascii (true, true, true, true, false, true,
                   false, false)), (String ((Ascii (false, true, false,
                   false, false, true, true, false)), (String ((Ascii (true,
                   false, false, false, false, true, true, false)), (String
                   ((Ascii (false, true, false, false, false, true, true,
                   false)), (String ((Ascii (true, false, true, false, false,
                   true, true, false)), (String ((Ascii (false, false, true,
                   true, false, true, true, false)), (String ((Ascii (true,
                   false, true, true, false, true, false, false)), (String
                   ((Ascii (false, false, false, true, false, true, true,
                   false)), (String ((Ascii (true, false, true, false, false,
                   true, true, false)), (String ((Ascii (false, false, true,
                   true, false, true, true, false)), (String ((Ascii (false,
                   false, false, false, true, true, true, false)), (String
                   ((Ascii (true, false, true, false, false, true, true,
                   false)), (String ((Ascii (false, true, false, false, true,
                   true, true, false)), (String ((Ascii (true, false, true,
                   true, false, true, false, false)), (String ((Ascii (false,
                   true, true, false, true, true, true, false)), (String
                   ((Ascii (true, false, true, false, true, true, true,
                   false)), (String ((Ascii (true, false, true, false, false,
                   true, true, false)), (String ((Ascii (true, false, true,
                   true, false, true, false, false)), (String ((Ascii (false,
                   false, true, false, true, true, true, false)), (String
                   ((Ascii (false, true, false, false, true, true, true,
                   false)), (String ((Ascii (true, false, false, false,
                   false, true, true, false)), (String ((Ascii (false, true,
                   true, true, false, true, true, false)), (String ((Ascii
                   (true, true, false, false, true, true, true, false)),
                   (String ((Ascii (false, true, true, false, false, true,
                   true, false)), (String ((Ascii (true, true, true, true,
                   false, true, true, false)), (String ((Ascii (false, true,
                   false, false, true, true, true, false)), (String ((Ascii
                   (true, false, true, true, false, true, true, false)),
                   (String ((Ascii (true, false, true, true, false, true,
                   false, false)), (String ((Ascii (true, true, true, true,
                   false, true, true, false)), (String ((Ascii (false, true,
                   true, true, false, true, true, false)),
                   EmptyString))))))))))))))))))))))))))))))))))))))))))))))))))))))))))))))))))))) :: items1
            else items1
          in
          let items3 =
            match s1.imports with
            | [] -> items2
            | s2 :: l0 ->
              (mk_import (map mk_import_spec (s2 :: l0)) (String ((Ascii
                (false, true, true, false, true, true, true, false)), (String
                ((Ascii (true, false, true, false, true, true, true, false)),
                (String ((Ascii (true, false, true, false, false, true, true,
                false)), EmptyString))))))) :: items2
          in
          (items3, s1))

(** val transform_module :
    env -> (node -> st -> node * st) -> (node -> st -> node * st) -> (node ->
    st -> st) -> node -> node * st **)

let transform_module e hook_call hook_declarator collect_ts_decls m = match m with
| NObj l ->
  (match l with
   | [] -> (m, st0)
   | n :: l0 ->
     (match n with
      | Field (kt, ty) ->
        (match l0 with
         | [] -> (m, st0)
         | n0 :: l1 ->
           (match n0 with
            | Field (kb, v) ->
              (match v with
               | NArr items ->
                 (match l1 with
                  | [] -> (m, st0)
                  | interp :: l2 ->
                    (match l2 with
                     | [] ->
                       let s = search_pragmas e.e_comments st0 in
                       let s0 = collect_ts_decls m s in
                       let (items', s1) =
                         visit_list_with (visit e hook_call hook_declarator)
                           MExpr items s0
                       in
                       let (items'', s2) = finish_module items' s1 in
                       ((NObj ((Field (kt, ty)) :: ((Field (kb, (NArr
                       items''))) :: (interp :: [])))), s2)
                     | _ :: _ -> (m, st0)))
               | _ -> (m, st0))
            | _ -> (m, st0)))
      | _ -> (m, st0)))
| _ -> (m, st0)
