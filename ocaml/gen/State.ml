open Ascii
open Ast
open BinNat
open BinNums
open Datatypes
open Json
open List
open Str
open String

type options = { o_transform_on : bool; o_optimize : bool;
                 o_merge_props : bool; o_object_slots : bool;
                 o_pragma : str option; o_resolve_type : bool; o_npat : 
                 nat }

type env = { e_opts : options; e_unres : coq_N;
             e_matches : (str * bool list) list; e_html : str list;
             e_svg : str list; e_comments : str list list }

(** val lookup_matches : str -> (str * bool list) list -> bool list **)

let rec lookup_matches n = function
| [] -> []
| p :: r -> let (k, v) = p in if str_eqb k n then v else lookup_matches n r

(** val pat_any : env -> str -> bool **)

let pat_any e name =
  existsb (fun b -> b) (lookup_matches name e.e_matches)

(** val is_html_or_svg : env -> str -> bool **)

let is_html_or_svg e name = match name with
| [] -> false
| c :: _ ->
  (&&) (is_ascii_lower c)
    ((||) (mem_str name e.e_html) (mem_str name e.e_svg))

type st = { imports : str list; ton_helper : bool;
            define_component : coq_N option;
            interfaces : ((str * coq_N) * node) list;
            aliases : ((str * coq_N) * node) list; pragma : str option;
            slot_helper : bool; inj_vars : node list; slot_counter : 
            coq_N; slot_stack : bool list; assign_left : str option;
            inj_consts : node list; fresh : coq_N; diags : str list;
            panicked : bool }

(** val st0 : st **)

let st0 =
  { imports = []; ton_helper = false; define_component = None; interfaces =
    []; aliases = []; pragma = None; slot_helper = false; inj_vars = [];
    slot_counter = (Npos Coq_xH); slot_stack = []; assign_left = None;
    inj_consts = []; fresh = N0; diags = []; panicked = false }

(** val set_imports : str list -> st -> st **)

let set_imports v s =
  { imports = v; ton_helper = s.ton_helper; define_component =
    s.define_component; interfaces = s.interfaces; aliases = s.aliases;
    pragma = s.pragma; slot_helper = s.slot_helper; inj_vars = s.inj_vars;
    slot_counter = s.slot_counter; slot_stack = s.slot_stack; assign_left =
    s.assign_left; inj_consts = s.inj_consts; fresh = s.fresh; diags =
    s.diags; panicked = s.panicked }

(** val set_ton : bool -> st -> st **)

let set_ton v s =
  { imports = s.imports; ton_helper = v; define_component =
    s.define_component; interfaces = s.interfaces; aliases = s.aliases;
    pragma = s.pragma; slot_helper = s.slot_helper; inj_vars = s.inj_vars;
    slot_counter = s.slot_counter; slot_stack = s.slot_stack; assign_left =
    s.assign_left; inj_consts = s.inj_consts; fresh = s.fresh; diags =
    s.diags; panicked = s.panicked }

(** val set_define_component : coq_N option -> st -> st **)

let set_define_component v s =
  { imports = s.imports; ton_helper = s.ton_helper; define_component = v;
    interfaces = s.interfaces; aliases = s.aliases; pragma = s.pragma;
    slot_helper = s.slot_helper; inj_vars = s.inj_vars; slot_counter =
    s.slot_counter; slot_stack = s.slot_stack; assign_left = s.assign_left;
    inj_consts = s.inj_consts; fresh = s.fresh; diags = s.diags; panicked =
    s.panicked }

(** val set_interfaces : ((str * coq_N) * node) list -> st -> st **)

let set_interfaces v s =
  { imports = s.imports; ton_helper = s.ton_helper; define_component =
    s.define_component; interfaces = v; aliases = s.aliases; pragma =
    s.pragma; slot_helper = s.slot_helper; inj_vars = s.inj_vars;
    slot_counter = s.slot_counter; slot_stack = s.slot_stack; assign_left =
    s.assign_left; inj_consts = s.inj_consts; fresh = s.fresh; diags =
    s.diags; panicked = s.panicked }

(** val set_aliases : ((str * coq_N) * node) list -> st -> st **)

let set_aliases v s =
  { imports = s.imports; ton_helper = s.ton_helper; define_component =
    s.define_component; interfaces = s.interfaces; aliases = v; pragma =
    s.pragma; slot_helper = s.slot_helper; inj_vars = s.inj_vars;
    slot_counter = s.slot_counter; slot_stack = s.slot_stack; assign_left =
    s.assign_left; inj_consts = s.inj_consts; fresh = s.fresh; diags =
    s.diags; panicked = s.panicked }

(** val set_pragma : str option -> st -> st **)

let set_pragma v s =
  { imports = s.imports; ton_helper = s.ton_helper; define_component =
    s.define_component; interfaces = s.interfaces; aliases = s.aliases;
    pragma = v; slot_helper = s.slot_helper; inj_vars = s.inj_vars;
    slot_counter = s.slot_counter; slot_stack = s.slot_stack; assign_left =
    s.assign_left; inj_consts = s.inj_consts; fresh = s.fresh; diags =
    s.diags; panicked = s.panicked }

(** val set_slot_helper : bool -> st -> st **)

let set_slot_helper v s =
  { imports = s.imports; ton_helper = s.ton_helper; define_component =
    s.define_component; interfaces = s.interfaces; aliases = s.aliases;
    pragma = s.pragma; slot_helper = v; inj_vars = s.inj_vars; slot_counter =
    s.slot_counter; slot_stack = s.slot_stack; assign_left = s.assign_left;
    inj_consts = s.inj_consts; fresh = s.fresh; diags = s.diags; panicked =
    s.panicked }

(** val set_inj_vars : node list -> st -> st **)

let set_inj_vars v s =
  { imports = s.imports; ton_helper = s.ton_helper; define_component =
    s.define_component; interfaces = s.interfaces; aliases = s.aliases;
    pragma = s.pragma; slot_helper = s.slot_helper; inj_vars = v;
    slot_counter = s.slot_counter; slot_stack = s.slot_stack; assign_left =
    s.assign_left; inj_consts = s.inj_consts; fresh = s.fresh; diags =
    s.diags; panicked = s.panicked }

(** val set_slot_counter : coq_N -> st -> st **)

let set_slot_counter v s =
  { imports = s.imports; ton_helper = s.ton_helper; define_component =
    s.define_component; interfaces = s.interfaces; aliases = s.aliases;
    pragma = s.pragma; slot_helper = s.slot_helper; inj_vars = s.inj_vars;
    slot_counter = v; slot_stack = s.slot_stack; assign_left = s.assign_left;
    inj_consts = s.inj_consts; fresh = s.fresh; diags = s.diags; panicked =
    s.panicked }

(** val set_slot_stack : bool list -> st -> st **)

let set_slot_stack v s =
  { imports = s.imports; ton_helper = s.ton_helper; define_component =
    s.define_component; interfaces = s.interfaces; aliases = s.aliases;
    pragma = s.pragma; slot_helper = s.slot_helper; inj_vars = s.inj_vars;
    slot_counter = s.slot_counter; slot_stack = v; assign_left =
    s.assign_left; inj_consts = s.inj_consts; fresh = s.fresh; diags =
    s.diags; panicked = s.panicked }

(** val set_assign_left : str option -> st -> st **)

let set_assign_left v s =
  { imports = s.imports; ton_helper = s.ton_helper; define_component =
    s.define_component; interfaces = s.interfaces; aliases = s.aliases;
    pragma = s.pragma; slot_helper = s.slot_helper; inj_vars = s.inj_vars;
    slot_counter = s.slot_counter; slot_stack = s.slot_stack; assign_left =
    v; inj_consts = s.inj_consts; fresh = s.fresh; diags = s.diags;
    panicked = s.panicked }

(** val set_inj_consts : node list -> st -> st **)

let set_inj_consts v s =
  { imports = s.imports; ton_helper = s.ton_helper; define_component =
    s.define_component; interfaces = s.interfaces; aliases = s.aliases;
    pragma = s.pragma; slot_helper = s.slot_helper; inj_vars = s.inj_vars;
    slot_counter = s.slot_counter; slot_stack = s.slot_stack; assign_left =
    s.assign_left; inj_consts = v; fresh = s.fresh; diags = s.diags;
    panicked = s.panicked }

(** val set_fresh : coq_N -> st -> st **)

let set_fresh v s =
  { imports = s.imports; ton_helper = s.ton_helper; define_component =
    s.define_component; interfaces = s.interfaces; aliases = s.aliases;
    pragma = s.pragma; slot_helper = s.slot_helper; inj_vars = s.inj_vars;
    slot_counter = s.slot_counter; slot_stack = s.slot_stack; assign_left =
    s.assign_left; inj_consts = s.inj_consts; fresh = v; diags = s.diags;
    panicked = s.panicked }

(** val set_diags : str list -> st -> st **)

let set_diags v s =
  { imports = s.imports; ton_helper = s.ton_helper; define_component =
    s.define_component; interfaces = s.interfaces; aliases = s.aliases;
    pragma = s.pragma; slot_helper = s.slot_helper; inj_vars = s.inj_vars;
    slot_counter = s.slot_counter; slot_stack = s.slot_stack; assign_left =
    s.assign_left; inj_consts = s.inj_consts; fresh = s.fresh; diags = v;
    panicked = s.panicked }

(** val set_panicked : bool -> st -> st **)

let set_panicked v s =
  { imports = s.imports; ton_helper = s.ton_helper; define_component =
    s.define_component; interfaces = s.interfaces; aliases = s.aliases;
    pragma = s.pragma; slot_helper = s.slot_helper; inj_vars = s.inj_vars;
    slot_counter = s.slot_counter; slot_stack = s.slot_stack; assign_left =
    s.assign_left; inj_consts = s.inj_consts; fresh = s.fresh; diags =
    s.diags; panicked = v }

(** val add_diag : string -> st -> st **)

let add_diag m s =
  set_diags (app s.diags ((s_ m) :: [])) s

(** val panic : st -> st **)

let panic s =
  set_panicked true s

(** val helper_names : string list **)

let helper_names =
  (String ((Ascii (false, true, true, false, false, false, true, false)),
    (String ((Ascii (false, true, false, false, true, true, true, false)),
    (String ((Ascii (true, false, false, false, false, true, true, false)),
    (String ((Ascii (true, true, true, false, false, true, true, false)),
    (String ((Ascii (true, false, true, true, false, true, true, false)),
    (String ((Ascii (true, false, true, false, false, true, true, false)),
    (String ((Ascii (false, true, true, true, false, true, true, false)),
    (String ((Ascii (false, false, true, false, true, true, true, false)),
    EmptyString)))))))))))))))) :: ((String ((Ascii (true, true, false,
    false, false, true, true, false)), (String ((Ascii (false, true, false,
    false, true, true, true, false)), (String ((Ascii (true, false, true,
    false, false, true, true, false)), (String ((Ascii (true, false, false,
    false, false, true, true, false)), (String ((Ascii (false, false, true,
    false, true, true, true, false)), (String ((Ascii (true, false, true,
    false, false, true, true, false)), (String ((Ascii (false, false, true,
    false, true, false, true, false)), (String ((Ascii (true, false, true,
    false, false, true, true, false)), (String ((Ascii (false, false, false,
    true, true, true, true, false)), (String ((Ascii (false, false, true,
    false, true, true, true, false)), (String ((Ascii (false, true, true,
    false, true, false, true, false)), (String ((Ascii (false, true, true,
    true, false, false, true, false)), (String ((Ascii (true, true, true,
    true, false, true, true, false)), (String ((Ascii (false, false, true,
    false, false, true, true, false)), (String ((Ascii (true, false, true,
    false, false, true, true, false)),
    EmptyString)))))))))))))))))))))))))))))) :: ((String ((Ascii (true,
    true, false, false, false, true, true, false)), (String ((Ascii (false,
    true, false, false, true, true, true, false)), (String ((Ascii (true,
    false, true, false, false, true, true, false)), (String ((Ascii (true,
    false, false, false, false, true, true, false)), (String ((Ascii (false,
    false, true, false, true, true, true, false)), (String ((Ascii (true,
    false, true, false, false, true, true, false)), (String ((Ascii (false,
    true, true, false, true, false, true, false)), (String ((Ascii (false,
    true, true, true, false, false, true, false)), (String ((Ascii (true,
    true, true, true, false, true, true, false)), (String ((Ascii (false,
    false, true, false, false, true, true, false)), (String ((Ascii (true,
    false, true, false, false, true, true, false)),
    EmptyString)))))))))))))))))))))) :: ((String ((Ascii (true, false,
    false, true, false, true, true, false)), (String ((Ascii (true, true,
    false, false, true, true, true, false)), (String ((Ascii (false, true,
    true, false, true, false, true, false)), (String ((Ascii (false, true,
    true, true, false, false, true, false)), (String ((Ascii (true, true,
    true, true, false, true, true, false)), (String ((Ascii (false, false,
    true, false, false, true, true, false)), (String ((Ascii (true, false,
    true, false, false, true, true, false)),
    EmptyString)))))))))))))) :: ((String ((Ascii (true, false, true, true,
    false, true, true, false)), (String ((Ascii (true, false, true, false,
    false, true, true, false)), (String ((Ascii (false, true, false, false,
    true, true, true, false)), (String ((Ascii (true, true, true, false,
    false, true, true, false)), (String ((Ascii (true, false, true, false,
    false, true, true, false)), (String ((Ascii (false, false, true, false,
    false, false, true, false)), (String ((Ascii (true, false, true, false,
    false, true, true, false)), (String ((Ascii (false, true, true, false,
    false, true, true, false)), (String ((Ascii (true, false, false, false,
    false, true, true, false)), (String ((Ascii (true, false, true, false,
    true, true, true, false)), (String ((Ascii (false, false, true, true,
    false, true, true, false)), (String ((Ascii (false, false, true, false,
    true, true, true, false)), (String ((Ascii (true, true, false, false,
    true, true, true, false)),
    EmptyString)))))))))))))))))))))))))) :: ((String ((Ascii (true, false,
    true, true, false, true, true, false)), (String ((Ascii (true, false,
    true, false, false, true, true, false)), (String ((Ascii (false, true,
    false, false, true, true, true, false)), (String ((Ascii (true, true,
    true, false, false, true, true, false)), (String ((Ascii (true, false,
    true, false, false, true, true, false)), (String ((Ascii (false, false,
    false, false, true, false, true, false)), (String ((Ascii (false, true,
    false, false, true, true, true, false)), (String ((Ascii (true, true,
    true, true, false, true, true, false)), (String ((Ascii (false, false,
    false, false, true, true, true, false)), (String ((Ascii (true, true,
    false, false, true, true, true, false)),
    EmptyString)))))))))))))))))))) :: ((String ((Ascii (false, true, false,
    false, true, true, true, false)), (String ((Ascii (true, false, true,
    false, false, true, true, false)), (String ((Ascii (true, true, false,
    false, true, true, true, false)), (String ((Ascii (true, true, true,
    true, false, true, true, false)), (String ((Ascii (false, false, true,
    true, false, true, true, false)), (String ((Ascii (false, true, true,
    false, true, true, true, false)), (String ((Ascii (true, false, true,
    false, false, true, true, false)), (String ((Ascii (true, true, false,
    false, false, false, true, false)), (String ((Ascii (true, true, true,
    true, false, true, true, false)), (String ((Ascii (true, false, true,
    true, false, true, true, false)), (String ((Ascii (false, false, false,
    false, true, true, true, false)), (String ((Ascii (true, true, true,
    true, false, true, true, false)), (String ((Ascii (false, true, true,
    true, false, true, true, false)), (String ((Ascii (true, false, true,
    false, false, true, true, false)), (String ((Ascii (false, true, true,
    true, false, true, true, false)), (String ((Ascii (false, false, true,
    false, true, true, true, false)),
    EmptyString)))))))))))))))))))))))))))))))) :: ((String ((Ascii (false,
    true, false, false, true, true, true, false)), (String ((Ascii (true,
    false, true, false, false, true, true, false)), (String ((Ascii (true,
    true, false, false, true, true, true, false)), (String ((Ascii (true,
    true, true, true, false, true, true, false)), (String ((Ascii (false,
    false, true, true, false, true, true, false)), (String ((Ascii (false,
    true, true, false, true, true, true, false)), (String ((Ascii (true,
    false, true, false, false, true, true, false)), (String ((Ascii (false,
    false, true, false, false, false, true, false)), (String ((Ascii (true,
    false, false, true, false, true, true, false)), (String ((Ascii (false,
    true, false, false, true, true, true, false)), (String ((Ascii (true,
    false, true, false, false, true, true, false)), (String ((Ascii (true,
    true, false, false, false, true, true, false)), (String ((Ascii (false,
    false, true, false, true, true, true, false)), (String ((Ascii (true,
    false, false, true, false, true, true, false)), (String ((Ascii (false,
    true, true, false, true, true, true, false)), (String ((Ascii (true,
    false, true, false, false, true, true, false)),
    EmptyString)))))))))))))))))))))))))))))))) :: ((String ((Ascii (false,
    true, true, false, true, true, true, false)), (String ((Ascii (true,
    false, true, true, false, false, true, false)), (String ((Ascii (true,
    true, true, true, false, true, true, false)), (String ((Ascii (false,
    false, true, false, false, true, true, false)), (String ((Ascii (true,
    false, true, false, false, true, true, false)), (String ((Ascii (false,
    false, true, true, false, true, true, false)), (String ((Ascii (true,
    true, false, false, false, false, true, false)), (String ((Ascii (false,
    false, false, true, false, true, true, false)), (String ((Ascii (true,
    false, true, false, false, true, true, false)), (String ((Ascii (true,
    true, false, false, false, true, true, false)), (String ((Ascii (true,
    true, false, true, false, true, true, false)), (String ((Ascii (false,
    true, false, false, false, true, true, false)), (String ((Ascii (true,
    true, true, true, false, true, true, false)), (String ((Ascii (false,
    false, false, true, true, true, true, false)),
    EmptyString)))))))))))))))))))))))))))) :: ((String ((Ascii (false, true,
    true, false, true, true, true, false)), (String ((Ascii (true, false,
    true, true, false, false, true, false)), (String ((Ascii (true, true,
    true, true, false, true, true, false)), (String ((Ascii (false, false,
    true, false, false, true, true, false)), (String ((Ascii (true, false,
    true, false, false, true, true, false)), (String ((Ascii (false, false,
    true, true, false, true, true, false)), (String ((Ascii (false, false,
    true, false, false, false, true, false)), (String ((Ascii (true, false,
    false, true, true, true, true, false)), (String ((Ascii (false, true,
    true, true, false, true, true, false)), (String ((Ascii (true, false,
    false, false, false, true, true, false)), (String ((Ascii (true, false,
    true, true, false, true, true, false)), (String ((Ascii (true, false,
    false, true, false, true, true, false)), (String ((Ascii (true, true,
    false, false, false, true, true, false)),
    EmptyString)))))))))))))))))))))))))) :: ((String ((Ascii (false, true,
    true, false, true, true, true, false)), (String ((Ascii (true, false,
    true, true, false, false, true, false)), (String ((Ascii (true, true,
    true, true, false, true, true, false)), (String ((Ascii (false, false,
    true, false, false, true, true, false)), (String ((Ascii (true, false,
    true, false, false, true, true, false)), (String ((Ascii (false, false,
    true, true, false, true, true, false)), (String ((Ascii (false, true,
    false, false, true, false, true, false)), (String ((Ascii (true, false,
    false, false, false, true, true, false)), (String ((Ascii (false, false,
    true, false, false, true, true, false)), (String ((Ascii (true, false,
    false, true, false, true, true, false)), (String ((Ascii (true, true,
    true, true, false, true, true, false)),
    EmptyString)))))))))))))))))))))) :: ((String ((Ascii (false, true, true,
    false, true, true, true, false)), (String ((Ascii (true, false, true,
    true, false, false, true, false)), (String ((Ascii (true, true, true,
    true, false, true, true, false)), (String ((Ascii (false, false, true,
    false, false, true, true, false)), (String ((Ascii (true, false, true,
    false, false, true, true, false)), (String ((Ascii (false, false, true,
    true, false, true, true, false)), (String ((Ascii (true, true, false,
    false, true, false, true, false)), (String ((Ascii (true, false, true,
    false, false, true, true, false)), (String ((Ascii (false, false, true,
    true, false, true, true, false)), (String ((Ascii (true, false, true,
    false, false, true, true, false)), (String ((Ascii (true, true, false,
    false, false, true, true, false)), (String ((Ascii (false, false, true,
    false, true, true, true, false)),
    EmptyString)))))))))))))))))))))))) :: ((String ((Ascii (false, true,
    true, false, true, true, true, false)), (String ((Ascii (true, false,
    true, true, false, false, true, false)), (String ((Ascii (true, true,
    true, true, false, true, true, false)), (String ((Ascii (false, false,
    true, false, false, true, true, false)), (String ((Ascii (true, false,
    true, false, false, true, true, false)), (String ((Ascii (false, false,
    true, true, false, true, true, false)), (String ((Ascii (false, false,
    true, false, true, false, true, false)), (String ((Ascii (true, false,
    true, false, false, true, true, false)), (String ((Ascii (false, false,
    false, true, true, true, true, false)), (String ((Ascii (false, false,
    true, false, true, true, true, false)),
    EmptyString)))))))))))))))))))) :: ((String ((Ascii (false, true, true,
    false, true, true, true, false)), (String ((Ascii (true, true, false,
    false, true, false, true, false)), (String ((Ascii (false, false, false,
    true, false, true, true, false)), (String ((Ascii (true, true, true,
    true, false, true, true, false)), (String ((Ascii (true, true, true,
    false, true, true, true, false)), EmptyString)))))))))) :: ((String
    ((Ascii (true, true, true, false, true, true, true, false)), (String
    ((Ascii (true, false, false, true, false, true, true, false)), (String
    ((Ascii (false, false, true, false, true, true, true, false)), (String
    ((Ascii (false, false, false, true, false, true, true, false)), (String
    ((Ascii (false, false, true, false, false, false, true, false)), (String
    ((Ascii (true, false, false, true, false, true, true, false)), (String
    ((Ascii (false, true, false, false, true, true, true, false)), (String
    ((Ascii (true, false, true, false, false, true, true, false)), (String
    ((Ascii (true, true, false, false, false, true, true, false)), (String
    ((Ascii (false, false, true, false, true, true, true, false)), (String
    ((Ascii (true, false, false, true, false, true, true, false)), (String
    ((Ascii (false, true, true, false, true, true, true, false)), (String
    ((Ascii (true, false, true, false, false, true, true, false)), (String
    ((Ascii (true, true, false, false, true, true, true, false)),
    EmptyString)))))))))))))))))))))))))))) :: []))))))))))))))

(** val helper_index : str -> string list -> coq_N -> coq_N **)

let rec helper_index n l i =
  match l with
  | [] -> i
  | h :: r -> if sq h n then i else helper_index n r (N.add i (Npos Coq_xH))

(** val helper_ctx : str -> coq_N **)

let helper_ctx name =
  N.add gen_base (helper_index name helper_names N0)

(** val ton_ctx : coq_N **)

let ton_ctx =
  N.add gen_base (Npos (Coq_xO (Coq_xI (Coq_xO (Coq_xO (Coq_xI Coq_xH))))))

(** val slot_helper_ctx : coq_N **)

let slot_helper_ctx =
  N.add gen_base (Npos (Coq_xI (Coq_xI (Coq_xO (Coq_xO (Coq_xI Coq_xH))))))

(** val temp_ctx : coq_N -> coq_N **)

let temp_ctx k =
  N.add
    (N.add gen_base (Npos (Coq_xO (Coq_xO (Coq_xO (Coq_xI (Coq_xO (Coq_xI
      (Coq_xI (Coq_xI (Coq_xI Coq_xH))))))))))) k

(** val mk_ident : str -> coq_N -> node **)

let mk_ident sym ctx =
  Ident (sym, ctx, false)

(** val mk_bident : str -> coq_N -> node **)

let mk_bident sym ctx =
  BIdent (sym, ctx, false, nnull)

(** val import_from_vue : string -> st -> node * st **)

let import_from_vue name s =
  let n = s_ name in
  ((mk_ident
     ((c_ (String ((Ascii (true, true, true, true, true, false, true,
        false)), EmptyString))) :: n) (helper_ctx n)),
  (set_imports (set_insert n s.imports) s))

(** val fresh_ident : str -> st -> (node * coq_N) * st **)

let fresh_ident sym s =
  let k = s.fresh in
  (((mk_ident sym (temp_ctx k)), (temp_ctx k)),
  (set_fresh (N.add k (Npos Coq_xH)) s))

(** val mk_str : str -> node **)

let mk_str v =
  Str (v, nnull)

(** val mk_strS : string -> node **)

let mk_strS v =
  Str ((s_ v), nnull)

(** val mk_num : coq_N -> node **)

let mk_num n =
  Num
    ((app (dec_of_N n)
       (s_ (String ((Ascii (false, true, true, true, false, true, false,
         false)), (String ((Ascii (false, false, false, false, true, true,
         false, false)), EmptyString)))))), nnull)

(** val mk_call : node -> node list -> node **)

let mk_call callee args =
  Call (true, N0, callee, (map (fun x -> Elem (false, x)) args), nnull)

(** val mk_arrow : node list -> node -> node **)

let mk_arrow params body =
  Arrow (N0, params, body, false, false, nnull, nnull)

(** val mk_void0 : node **)

let mk_void0 =
  Unary
    ((s_ (String ((Ascii (false, true, true, false, true, true, true,
       false)), (String ((Ascii (true, true, true, true, false, true, true,
       false)), (String ((Ascii (true, false, false, true, false, true, true,
       false)), (String ((Ascii (false, false, true, false, false, true,
       true, false)), EmptyString))))))))), (mk_num N0))

(** val empty_ident : node **)

let empty_ident =
  Ident ([], N0, false)
