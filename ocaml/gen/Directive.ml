open Ascii
open Ast
open BinNat
open BinNums
open Datatypes
open List
open State
open Str
open String

(** val attr_base_name : node -> str **)

let attr_base_name = function
| IdName s -> s
| JNs (ns0, _) -> (match ns0 with
                   | IdName ns -> ns
                   | _ -> [])
| _ -> []

(** val is_directive_name : str -> bool **)

let is_directive_name = function
| [] -> false
| n :: l ->
  (match n with
   | N0 -> false
   | Npos p ->
     (match p with
      | Coq_xO p0 ->
        (match p0 with
         | Coq_xI p1 ->
           (match p1 with
            | Coq_xI p2 ->
              (match p2 with
               | Coq_xO p3 ->
                 (match p3 with
                  | Coq_xI p4 ->
                    (match p4 with
                     | Coq_xI p5 ->
                       (match p5 with
                        | Coq_xH ->
                          (match l with
                           | [] -> false
                           | c :: _ ->
                             (||)
                               (N.eqb c (Npos (Coq_xI (Coq_xO (Coq_xI (Coq_xI
                                 (Coq_xO Coq_xH))))))) (is_ascii_upper c))
                        | _ -> false)
                     | _ -> false)
                  | _ -> false)
               | _ -> false)
            | _ -> false)
         | _ -> false)
      | _ -> false))

(** val is_directive : node -> bool **)

let is_directive = function
| JAttr (name, _) -> is_directive_name (attr_base_name name)
| _ -> false

type directive =
| DNormal of str * node option * node option * node
| DText of node
| DHtml of node
| DVModel of node option * node option * node option * node
| DSlots of node option

(** val lowercase_first : str -> str **)

let lowercase_first = function
| [] -> []
| c :: r -> (to_ascii_lower c) :: r

(** val parse_modifiers : node list -> str list **)

let rec parse_modifiers = function
| [] -> []
| n :: r ->
  (match n with
   | Elem (spread, e) ->
     if spread
     then parse_modifiers r
     else (match e with
           | Str (v, _) -> set_insert v (parse_modifiers r)
           | _ -> parse_modifiers r)
   | _ -> parse_modifiers r)

(** val set_of_list : str list -> str list **)

let set_of_list l =
  fold_right set_insert [] l

(** val is_ascii_alpha : coq_N -> bool **)

let is_ascii_alpha c =
  (||) (is_ascii_lower c) (is_ascii_upper c)

(** val is_ascii_digit : coq_N -> bool **)

let is_ascii_digit c =
  (&&) (N.leb (Npos (Coq_xO (Coq_xO (Coq_xO (Coq_xO (Coq_xI Coq_xH)))))) c)
    (N.leb c (Npos (Coq_xI (Coq_xO (Coq_xO (Coq_xI (Coq_xI Coq_xH)))))))

(** val is_simple_ident : str -> bool **)

let is_simple_ident = function
| [] -> false
| c :: r ->
  (&&)
    ((||)
      ((||) (is_ascii_alpha c)
        (N.eqb c (Npos (Coq_xI (Coq_xI (Coq_xI (Coq_xI (Coq_xI (Coq_xO
          Coq_xH)))))))))
      (N.eqb c (Npos (Coq_xO (Coq_xO (Coq_xI (Coq_xO (Coq_xO Coq_xH))))))))
    (forallb (fun c0 ->
      (||)
        ((||) ((||) (is_ascii_alpha c0) (is_ascii_digit c0))
          (N.eqb c0 (Npos (Coq_xI (Coq_xI (Coq_xI (Coq_xI (Coq_xI (Coq_xO
            Coq_xH)))))))))
        (N.eqb c0 (Npos (Coq_xO (Coq_xO (Coq_xI (Coq_xO (Coq_xO Coq_xH))))))))
      r)

(** val transform_modifiers : str list -> bool -> node option **)

let transform_modifiers mods quote =
  match mods with
  | [] -> None
  | _ :: _ ->
    Some (Obj
      (map (fun m -> KV
        ((if (||) quote (negb (is_simple_ident m)) then mk_str m else IdName m),
        (Bool true))) mods))

(** val nonempty_mods : str list option -> bool **)

let nonempty_mods = function
| Some l -> (match l with
             | [] -> false
             | _ :: _ -> true)
| None -> false

(** val elem_at : node list -> nat -> node option **)

let elem_at elems i =
  match nth_error elems i with
  | Some n ->
    (match n with
     | Elem (spread, e) -> if spread then None else Some e
     | _ -> None)
  | None -> None

(** val as_array : node -> node list option **)

let as_array = function
| Arr l -> Some l
| _ -> None

(** val or_void0 : node option -> node option **)

let or_void0 a = match a with
| Some _ -> a
| None -> Some mk_void0

(** val first_or_self : node -> node **)

let first_or_self e = match e with
| Arr elems ->
  (match elems with
   | [] -> e
   | n :: _ ->
     (match n with
      | Elem (spread, x) -> if spread then e else x
      | _ -> e))
| _ -> e

(** val parse_html_text : string -> node -> st -> node * st **)

let parse_html_text which value s =
  match value with
  | Str (v, _) -> ((mk_str v), s)
  | JExprC e ->
    (match e with
     | JEmpty ->
       ((Bool true),
         (set_diags
           (app s.diags
             ((app
                (s_ (String ((Ascii (true, false, false, true, true, false,
                  true, false)), (String ((Ascii (true, true, true, true,
                  false, true, true, false)), (String ((Ascii (true, false,
                  true, false, true, true, true, false)), (String ((Ascii
                  (false, false, false, false, false, true, false, false)),
                  (String ((Ascii (false, false, false, true, false, true,
                  true, false)), (String ((Ascii (true, false, false, false,
                  false, true, true, false)), (String ((Ascii (false, true,
                  true, false, true, true, true, false)), (String ((Ascii
                  (true, false, true, false, false, true, true, false)),
                  (String ((Ascii (false, false, false, false, false, true,
                  false, false)), (String ((Ascii (false, false, true, false,
                  true, true, true, false)), (String ((Ascii (true, true,
                  true, true, false, true, true, false)), (String ((Ascii
                  (false, false, false, false, false, true, false, false)),
                  (String ((Ascii (true, false, true, false, true, true,
                  true, false)), (String ((Ascii (true, true, false, false,
                  true, true, true, false)), (String ((Ascii (true, false,
                  true, false, false, true, true, false)), (String ((Ascii
                  (false, false, false, false, false, true, false, false)),
                  (String ((Ascii (false, true, false, true, false, false,
                  true, false)), (String ((Ascii (true, true, false, false,
                  true, false, true, false)), (String ((Ascii (false, false,
                  false, true, true, false, true, false)), (String ((Ascii
                  (false, false, false, false, false, true, false, false)),
                  (String ((Ascii (true, false, true, false, false, false,
                  true, false)), (String ((Ascii (false, false, false, true,
                  true, true, true, false)), (String ((Ascii (false, false,
                  false, false, true, true, true, false)), (String ((Ascii
                  (false, true, false, false, true, true, true, false)),
                  (String ((Ascii (true, false, true, false, false, true,
                  true, false)), (String ((Ascii (true, true, false, false,
                  true, true, true, false)), (String ((Ascii (true, true,
                  false, false, true, true, true, false)), (String ((Ascii
                  (true, false, false, true, false, true, true, false)),
                  (String ((Ascii (true, true, true, true, false, true, true,
                  false)), (String ((Ascii (false, true, true, true, false,
                  true, true, false)), (String ((Ascii (false, false, false,
                  false, false, true, false, false)), (String ((Ascii (true,
                  false, false, true, false, true, true, false)), (String
                  ((Ascii (false, true, true, true, false, true, true,
                  false)), (String ((Ascii (true, true, false, false, true,
                  true, true, false)), (String ((Ascii (true, false, false,
                  true, false, true, true, false)), (String ((Ascii (false,
                  false, true, false, false, true, true, false)), (String
                  ((Ascii (true, false, true, false, false, true, true,
                  false)), (String ((Ascii (false, false, false, false,
                  false, true, false, false)), (String ((Ascii (true, false,
                  false, true, true, true, true, false)), (String ((Ascii
                  (true, true, true, true, false, true, true, false)),
                  (String ((Ascii (true, false, true, false, true, true,
                  true, false)), (String ((Ascii (false, true, false, false,
                  true, true, true, false)), (String ((Ascii (false, false,
                  false, false, false, true, false, false)), (String ((Ascii
                  (false, false, false, false, false, true, true, false)),
                  EmptyString)))))))))))))))))))))))))))))))))))))))))))))))))))))))))))))))))))))))))))))))))))))))))
                (app (s_ which)
                  (s_ (String ((Ascii (false, false, false, false, false,
                    true, true, false)), (String ((Ascii (false, true, true,
                    true, false, true, false, false)), EmptyString))))))) :: []))
           s))
     | _ -> ((first_or_self e), s))
  | _ ->
    ((Bool true),
      (set_diags
        (app s.diags
          ((app
             (s_ (String ((Ascii (true, false, false, true, true, false,
               true, false)), (String ((Ascii (true, true, true, true, false,
               true, true, false)), (String ((Ascii (true, false, true,
               false, true, true, true, false)), (String ((Ascii (false,
               false, false, false, false, true, false, false)), (String
               ((Ascii (false, false, false, true, false, true, true,
               false)), (String ((Ascii (true, false, false, false, false,
               true, true, false)), (String ((Ascii (false, true, true,
               false, true, true, true, false)), (String ((Ascii (true,
               false, true, false, false, true, true, false)), (String
               ((Ascii (false, false, false, false, false, true, false,
               false)), (String ((Ascii (false, false, true, false, true,
               true, true, false)), (String ((Ascii (true, true, true, true,
               false, true, true, false)), (String ((Ascii (false, false,
               false, false, false, true, false, false)), (String ((Ascii
               (true, false, true, false, true, true, true, false)), (String
               ((Ascii (true, true, false, false, true, true, true, false)),
               (String ((Ascii (true, false, true, false, false, true, true,
               false)), (String ((Ascii (false, false, false, false, false,
               true, false, false)), (String ((Ascii (false, true, false,
               true, false, false, true, false)), (String ((Ascii (true,
               true, false, false, true, false, true, false)), (String
               ((Ascii (false, false, false, true, true, false, true,
               false)), (String ((Ascii (false, false, false, false, false,
               true, false, false)), (String ((Ascii (true, false, true,
               false, false, false, true, false)), (String ((Ascii (false,
               false, false, true, true, true, true, false)), (String ((Ascii
               (false, false, false, false, true, true, true, false)),
               (String ((Ascii (false, true, false, false, true, true, true,
               false)), (String ((Ascii (true, false, true, false, false,
               true, true, false)), (String ((Ascii (true, true, false,
               false, true, true, true, false)), (String ((Ascii (true, true,
               false, false, true, true, true, false)), (String ((Ascii
               (true, false, false, true, false, true, true, false)), (String
               ((Ascii (true, true, true, true, false, true, true, false)),
               (String ((Ascii (false, true, true, true, false, true, true,
               false)), (String ((Ascii (false, false, false, false, false,
               true, false, false)), (String ((Ascii (true, false, false,
               true, false, true, true, false)), (String ((Ascii (false,
               true, true, true, false, true, true, false)), (String ((Ascii
               (true, true, false, false, true, true, true, false)), (String
               ((Ascii (true, false, false, true, false, true, true, false)),
               (String ((Ascii (false, false, true, false, false, true, true,
               false)), (String ((Ascii (true, false, true, false, false,
               true, true, false)), (String ((Ascii (false, false, false,
               false, false, true, false, false)), (String ((Ascii (true,
               false, false, true, true, true, true, false)), (String ((Ascii
               (true, true, true, true, false, true, true, false)), (String
               ((Ascii (true, false, true, false, true, true, true, false)),
               (String ((Ascii (false, true, false, false, true, true, true,
               false)), (String ((Ascii (false, false, false, false, false,
               true, false, false)), (String ((Ascii (false, false, false,
               false, false, true, true, false)),
               EmptyString)))))))))))))))))))))))))))))))))))))))))))))))))))))))))))))))))))))))))))))))))))))))))
             (app (s_ which)
               (s_ (String ((Ascii (false, false, false, false, false, true,
                 true, false)), (String ((Ascii (false, true, true, true,
                 false, true, false, false)), EmptyString))))))) :: [])) s))

(** val array_form :
    bool -> node option -> str list -> node list -> (node * node
    option) * str list option **)

let array_form dflt argument splitted elems =
  let v =
    match elems with
    | [] -> empty_ident
    | n :: _ ->
      (match n with
       | Elem (spread, e) -> if spread then empty_ident else e
       | _ -> empty_ident)
  in
  let arg_d =
    if dflt
    then (match argument with
          | Some _ -> argument
          | None -> Some Null)
    else argument
  in
  (match elem_at elems (S O) with
   | Some e ->
     (match as_array e with
      | Some elems2 -> ((v, arg_d), (Some (parse_modifiers elems2)))
      | None ->
        ((v, (match argument with
              | Some _ -> argument
              | None -> Some e)),
          (match elem_at elems (S (S O)) with
           | Some x ->
             (match as_array x with
              | Some elems3 -> Some (parse_modifiers elems3)
              | None -> None)
           | None -> None)))
   | None -> ((v, arg_d), (Some (set_of_list splitted))))

(** val vmodel_attr_value : node -> st -> node * st **)

let vmodel_attr_value value s =
  match value with
  | JExprC e ->
    (match e with
     | JEmpty ->
       (empty_ident,
         (add_diag (String ((Ascii (true, false, false, true, true, false,
           true, false)), (String ((Ascii (true, true, true, true, false,
           true, true, false)), (String ((Ascii (true, false, true, false,
           true, true, true, false)), (String ((Ascii (false, false, false,
           false, false, true, false, false)), (String ((Ascii (false, false,
           false, true, false, true, true, false)), (String ((Ascii (true,
           false, false, false, false, true, true, false)), (String ((Ascii
           (false, true, true, false, true, true, true, false)), (String
           ((Ascii (true, false, true, false, false, true, true, false)),
           (String ((Ascii (false, false, false, false, false, true, false,
           false)), (String ((Ascii (false, false, true, false, true, true,
           true, false)), (String ((Ascii (true, true, true, true, false,
           true, true, false)), (String ((Ascii (false, false, false, false,
           false, true, false, false)), (String ((Ascii (true, false, true,
           false, true, true, true, false)), (String ((Ascii (true, true,
           false, false, true, true, true, false)), (String ((Ascii (true,
           false, true, false, false, true, true, false)), (String ((Ascii
           (false, false, false, false, false, true, false, false)), (String
           ((Ascii (false, true, false, true, false, false, true, false)),
           (String ((Ascii (true, true, false, false, true, false, true,
           false)), (String ((Ascii (false, false, false, true, true, false,
           true, false)), (String ((Ascii (false, false, false, false, false,
           true, false, false)), (String ((Ascii (true, false, true, false,
           false, false, true, false)), (String ((Ascii (false, false, false,
           true, true, true, true, false)), (String ((Ascii (false, false,
           false, false, true, true, true, false)), (String ((Ascii (false,
           true, false, false, true, true, true, false)), (String ((Ascii
           (true, false, true, false, false, true, true, false)), (String
           ((Ascii (true, true, false, false, true, true, true, false)),
           (String ((Ascii (true, true, false, false, true, true, true,
           false)), (String ((Ascii (true, false, false, true, false, true,
           true, false)), (String ((Ascii (true, true, true, true, false,
           true, true, false)), (String ((Ascii (false, true, true, true,
           false, true, true, false)), (String ((Ascii (false, false, false,
           false, false, true, false, false)), (String ((Ascii (true, false,
           false, true, false, true, true, false)), (String ((Ascii (false,
           true, true, true, false, true, true, false)), (String ((Ascii
           (true, true, false, false, true, true, true, false)), (String
           ((Ascii (true, false, false, true, false, true, true, false)),
           (String ((Ascii (false, false, true, false, false, true, true,
           false)), (String ((Ascii (true, false, true, false, false, true,
           true, false)), (String ((Ascii (false, false, false, false, false,
           true, false, false)), (String ((Ascii (true, false, false, true,
           true, true, true, false)), (String ((Ascii (true, true, true,
           true, false, true, true, false)), (String ((Ascii (true, false,
           true, false, true, true, true, false)), (String ((Ascii (false,
           true, false, false, true, true, true, false)), (String ((Ascii
           (false, false, false, false, false, true, false, false)), (String
           ((Ascii (false, false, false, false, false, true, true, false)),
           (String ((Ascii (false, true, true, false, true, true, true,
           false)), (String ((Ascii (true, false, true, true, false, true,
           false, false)), (String ((Ascii (true, false, true, true, false,
           true, true, false)), (String ((Ascii (true, true, true, true,
           false, true, true, false)), (String ((Ascii (false, false, true,
           false, false, true, true, false)), (String ((Ascii (true, false,
           true, false, false, true, true, false)), (String ((Ascii (false,
           false, true, true, false, true, true, false)), (String ((Ascii
           (false, false, false, false, false, true, true, false)), (String
           ((Ascii (false, true, true, true, false, true, false, false)),
           EmptyString))))))))))))))))))))))))))))))))))))))))))))))))))))))))))))))))))))))))))))))))))))))))))))))))))))))))))
           s))
     | _ -> (e, s))
  | _ ->
    (empty_ident,
      (add_diag (String ((Ascii (true, false, false, true, true, false, true,
        false)), (String ((Ascii (true, true, true, true, false, true, true,
        false)), (String ((Ascii (true, false, true, false, true, true, true,
        false)), (String ((Ascii (false, false, false, false, false, true,
        false, false)), (String ((Ascii (false, false, false, true, false,
        true, true, false)), (String ((Ascii (true, false, false, false,
        false, true, true, false)), (String ((Ascii (false, true, true,
        false, true, true, true, false)), (String ((Ascii (true, false, true,
        false, false, true, true, false)), (String ((Ascii (false, false,
        false, false, false, true, false, false)), (String ((Ascii (false,
        false, true, false, true, true, true, false)), (String ((Ascii (true,
        true, true, true, false, true, true, false)), (String ((Ascii (false,
        false, false, false, false, true, false, false)), (String ((Ascii
        (true, false, true, false, true, true, true, false)), (String ((Ascii
        (true, true, false, false, true, true, true, false)), (String ((Ascii
        (true, false, true, false, false, true, true, false)), (String
        ((Ascii (false, false, false, false, false, true, false, false)),
        (String ((Ascii (false, true, false, true, false, false, true,
        false)), (String ((Ascii (true, true, false, false, true, false,
        true, false)), (String ((Ascii (false, false, false, true, true,
        false, true, false)), (String ((Ascii (false, false, false, false,
        false, true, false, false)), (String ((Ascii (true, false, true,
        false, false, false, true, false)), (String ((Ascii (false, false,
        false, true, true, true, true, false)), (String ((Ascii (false,
        false, false, false, true, true, true, false)), (String ((Ascii
        (false, true, false, false, true, true, true, false)), (String
        ((Ascii (true, false, true, false, false, true, true, false)),
        (String ((Ascii (true, true, false, false, true, true, true, false)),
        (String ((Ascii (true, true, false, false, true, true, true, false)),
        (String ((Ascii (true, false, false, true, false, true, true,
        false)), (String ((Ascii (true, true, true, true, false, true, true,
        false)), (String ((Ascii (false, true, true, true, false, true, true,
        false)), (String ((Ascii (false, false, false, false, false, true,
        false, false)), (String ((Ascii (true, false, false, true, false,
        true, true, false)), (String ((Ascii (false, true, true, true, false,
        true, true, false)), (String ((Ascii (true, true, false, false, true,
        true, true, false)), (String ((Ascii (true, false, false, true,
        false, true, true, false)), (String ((Ascii (false, false, true,
        false, false, true, true, false)), (String ((Ascii (true, false,
        true, false, false, true, true, false)), (String ((Ascii (false,
        false, false, false, false, true, false, false)), (String ((Ascii
        (true, false, false, true, true, true, true, false)), (String ((Ascii
        (true, true, true, true, false, true, true, false)), (String ((Ascii
        (true, false, true, false, true, true, true, false)), (String ((Ascii
        (false, true, false, false, true, true, true, false)), (String
        ((Ascii (false, false, false, false, false, true, false, false)),
        (String ((Ascii (false, false, false, false, false, true, true,
        false)), (String ((Ascii (false, true, true, false, true, true, true,
        false)), (String ((Ascii (true, false, true, true, false, true,
        false, false)), (String ((Ascii (true, false, true, true, false,
        true, true, false)), (String ((Ascii (true, true, true, true, false,
        true, true, false)), (String ((Ascii (false, false, true, false,
        false, true, true, false)), (String ((Ascii (true, false, true,
        false, false, true, true, false)), (String ((Ascii (false, false,
        true, true, false, true, true, false)), (String ((Ascii (false,
        false, false, false, false, true, true, false)), (String ((Ascii
        (false, true, true, true, false, true, false, false)),
        EmptyString))))))))))))))))))))))))))))))))))))))))))))))))))))))))))))))))))))))))))))))))))))))))))))))))))))))))))
        s))

(** val vmodel_first_check : node -> st -> st **)

let vmodel_first_check attr_value s =
  match attr_value with
  | Arr elems ->
    (match elems with
     | [] ->
       add_diag (String ((Ascii (false, false, true, false, true, false,
         true, false)), (String ((Ascii (false, false, false, true, false,
         true, true, false)), (String ((Ascii (true, false, true, false,
         false, true, true, false)), (String ((Ascii (false, false, false,
         false, false, true, false, false)), (String ((Ascii (false, true,
         true, false, false, true, true, false)), (String ((Ascii (true,
         false, false, true, false, true, true, false)), (String ((Ascii
         (false, true, false, false, true, true, true, false)), (String
         ((Ascii (true, true, false, false, true, true, true, false)),
         (String ((Ascii (false, false, true, false, true, true, true,
         false)), (String ((Ascii (false, false, false, false, false, true,
         false, false)), (String ((Ascii (true, false, true, false, false,
         true, true, false)), (String ((Ascii (false, false, true, true,
         false, true, true, false)), (String ((Ascii (true, false, true,
         false, false, true, true, false)), (String ((Ascii (true, false,
         true, true, false, true, true, false)), (String ((Ascii (true,
         false, true, false, false, true, true, false)), (String ((Ascii
         (false, true, true, true, false, true, true, false)), (String
         ((Ascii (false, false, true, false, true, true, true, false)),
         (String ((Ascii (false, false, false, false, false, true, false,
         false)), (String ((Ascii (true, true, true, true, false, true, true,
         false)), (String ((Ascii (false, true, true, false, false, true,
         true, false)), (String ((Ascii (false, false, false, false, false,
         true, false, false)), (String ((Ascii (false, false, false, false,
         false, true, true, false)), (String ((Ascii (false, true, true,
         false, true, true, true, false)), (String ((Ascii (true, false,
         true, true, false, true, false, false)), (String ((Ascii (true,
         false, true, true, false, true, true, false)), (String ((Ascii
         (true, true, true, true, false, true, true, false)), (String ((Ascii
         (false, false, true, false, false, true, true, false)), (String
         ((Ascii (true, false, true, false, false, true, true, false)),
         (String ((Ascii (false, false, true, true, false, true, true,
         false)), (String ((Ascii (false, false, false, false, false, true,
         true, false)), (String ((Ascii (false, false, false, false, false,
         true, false, false)), (String ((Ascii (true, false, false, false,
         false, true, true, false)), (String ((Ascii (false, true, false,
         false, true, true, true, false)), (String ((Ascii (false, true,
         false, false, true, true, true, false)), (String ((Ascii (true,
         false, false, false, false, true, true, false)), (String ((Ascii
         (true, false, false, true, true, true, true, false)), (String
         ((Ascii (false, false, false, false, false, true, false, false)),
         (String ((Ascii (true, false, true, true, false, true, true,
         false)), (String ((Ascii (true, false, true, false, true, true,
         true, false)), (String ((Ascii (true, true, false, false, true,
         true, true, false)), (String ((Ascii (false, false, true, false,
         true, true, true, false)), (String ((Ascii (false, false, false,
         false, false, true, false, false)), (String ((Ascii (false, true,
         false, false, false, true, true, false)), (String ((Ascii (true,
         false, true, false, false, true, true, false)), (String ((Ascii
         (false, false, false, false, false, true, false, false)), (String
         ((Ascii (false, false, true, false, true, true, true, false)),
         (String ((Ascii (false, false, false, true, false, true, true,
         false)), (String ((Ascii (true, false, true, false, false, true,
         true, false)), (String ((Ascii (false, false, false, false, false,
         true, false, false)), (String ((Ascii (false, true, false, false,
         false, true, true, false)), (String ((Ascii (true, true, true, true,
         false, true, true, false)), (String ((Ascii (true, false, true,
         false, true, true, true, false)), (String ((Ascii (false, true,
         true, true, false, true, true, false)), (String ((Ascii (false,
         false, true, false, false, true, true, false)), (String ((Ascii
         (false, false, false, false, false, true, false, false)), (String
         ((Ascii (true, false, true, false, false, true, true, false)),
         (String ((Ascii (false, false, false, true, true, true, true,
         false)), (String ((Ascii (false, false, false, false, true, true,
         true, false)), (String ((Ascii (false, true, false, false, true,
         true, true, false)), (String ((Ascii (true, false, true, false,
         false, true, true, false)), (String ((Ascii (true, true, false,
         false, true, true, true, false)), (String ((Ascii (true, true,
         false, false, true, true, true, false)), (String ((Ascii (true,
         false, false, true, false, true, true, false)), (String ((Ascii
         (true, true, true, true, false, true, true, false)), (String ((Ascii
         (false, true, true, true, false, true, true, false)), (String
         ((Ascii (false, true, true, true, false, true, false, false)),
         EmptyString))))))))))))))))))))))))))))))))))))))))))))))))))))))))))))))))))))))))))))))))))))))))))))))))))))))))))))))))))))))))))))))))))))
         s
     | n :: _ ->
       (match n with
        | Elem (spread, _) ->
          if spread
          then add_diag (String ((Ascii (false, false, true, false, true,
                 false, true, false)), (String ((Ascii (false, false, false,
                 true, false, true, true, false)), (String ((Ascii (true,
                 false, true, false, false, true, true, false)), (String
                 ((Ascii (false, false, false, false, false, true, false,
                 false)), (String ((Ascii (false, true, true, false, false,
                 true, true, false)), (String ((Ascii (true, false, false,
                 true, false, true, true, false)), (String ((Ascii (false,
                 true, false, false, true, true, true, false)), (String
                 ((Ascii (true, true, false, false, true, true, true,
                 false)), (String ((Ascii (false, false, true, false, true,
                 true, true, false)), (String ((Ascii (false, false, false,
                 false, false, true, false, false)), (String ((Ascii (true,
                 false, true, false, false, true, true, false)), (String
                 ((Ascii (false, false, true, true, false, true, true,
                 false)), (String ((Ascii (true, false, true, false, false,
                 true, true, false)), (String ((Ascii (true, false, true,
                 true, false, true, true, false)), (String ((Ascii (true,
                 false, true, false, false, true, true, false)), (String
                 ((Ascii (false, true, true, true, false, true, true,
                 false)), (String ((Ascii (false, false, true, false, true,
                 true, true, false)), (String ((Ascii (false, false, false,
                 false, false, true, false, false)), (String ((Ascii (true,
                 true, true, true, false, true, true, false)), (String
                 ((Ascii (false, true, true, false, false, true, true,
                 false)), (String ((Ascii (false, false, false, false, false,
                 true, false, false)), (String ((Ascii (false, false, false,
                 false, false, true, true, false)), (String ((Ascii (false,
                 true, true, false, true, true, true, false)), (String
                 ((Ascii (true, false, true, true, false, true, false,
                 false)), (String ((Ascii (true, false, true, true, false,
                 true, true, false)), (String ((Ascii (true, true, true,
                 true, false, true, true, false)), (String ((Ascii (false,
                 false, true, false, false, true, true, false)), (String
                 ((Ascii (true, false, true, false, false, true, true,
                 false)), (String ((Ascii (false, false, true, true, false,
                 true, true, false)), (String ((Ascii (false, false, false,
                 false, false, true, true, false)), (String ((Ascii (false,
                 false, false, false, false, true, false, false)), (String
                 ((Ascii (true, false, false, false, false, true, true,
                 false)), (String ((Ascii (false, true, false, false, true,
                 true, true, false)), (String ((Ascii (false, true, false,
                 false, true, true, true, false)), (String ((Ascii (true,
                 false, false, false, false, true, true, false)), (String
                 ((Ascii (true, false, false, true, true, true, true,
                 false)), (String ((Ascii (false, false, false, false, false,
                 true, false, false)), (String ((Ascii (true, false, true,
                 true, false, true, true, false)), (String ((Ascii (true,
                 false, true, false, true, true, true, false)), (String
                 ((Ascii (true, true, false, false, true, true, true,
                 false)), (String ((Ascii (false, false, true, false, true,
                 true, true, false)), (String ((Ascii (false, false, false,
                 false, false, true, false, false)), (String ((Ascii (false,
                 true, false, false, false, true, true, false)), (String
                 ((Ascii (true, false, true, false, false, true, true,
                 false)), (String ((Ascii (false, false, false, false, false,
                 true, false, false)), (String ((Ascii (false, false, true,
                 false, true, true, true, false)), (String ((Ascii (false,
                 false, false, true, false, true, true, false)), (String
                 ((Ascii (true, false, true, false, false, true, true,
                 false)), (String ((Ascii (false, false, false, false, false,
                 true, false, false)), (String ((Ascii (false, true, false,
                 false, false, true, true, false)), (String ((Ascii (true,
                 true, true, true, false, true, true, false)), (String
                 ((Ascii (true, false, true, false, true, true, true,
                 false)), (String ((Ascii (false, true, true, true, false,
                 true, true, false)), (String ((Ascii (false, false, true,
                 false, false, true, true, false)), (String ((Ascii (false,
                 false, false, false, false, true, false, false)), (String
                 ((Ascii (true, false, true, false, false, true, true,
                 false)), (String ((Ascii (false, false, false, true, true,
                 true, true, false)), (String ((Ascii (false, false, false,
                 false, true, true, true, false)), (String ((Ascii (false,
                 true, false, false, true, true, true, false)), (String
                 ((Ascii (true, false, true, false, false, true, true,
                 false)), (String ((Ascii (true, true, false, false, true,
                 true, true, false)), (String ((Ascii (true, true, false,
                 false, true, true, true, false)), (String ((Ascii (true,
                 false, false, true, false, true, true, false)), (String
                 ((Ascii (true, true, true, true, false, true, true, false)),
                 (String ((Ascii (false, true, true, true, false, true, true,
                 false)), (String ((Ascii (false, true, true, true, false,
                 true, false, false)),
                 EmptyString))))))))))))))))))))))))))))))))))))))))))))))))))))))))))))))))))))))))))))))))))))))))))))))))))))))))))))))))))))))))))))))))))))
                 s
          else s
        | _ ->
          add_diag (String ((Ascii (false, false, true, false, true, false,
            true, false)), (String ((Ascii (false, false, false, true, false,
            true, true, false)), (String ((Ascii (true, false, true, false,
            false, true, true, false)), (String ((Ascii (false, false, false,
            false, false, true, false, false)), (String ((Ascii (false, true,
            true, false, false, true, true, false)), (String ((Ascii (true,
            false, false, true, false, true, true, false)), (String ((Ascii
            (false, true, false, false, true, true, true, false)), (String
            ((Ascii (true, true, false, false, true, true, true, false)),
            (String ((Ascii (false, false, true, false, true, true, true,
            false)), (String ((Ascii (false, false, false, false, false,
            true, false, false)), (String ((Ascii (true, false, true, false,
            false, true, true, false)), (String ((Ascii (false, false, true,
            true, false, true, true, false)), (String ((Ascii (true, false,
            true, false, false, true, true, false)), (String ((Ascii (true,
            false, true, true, false, true, true, false)), (String ((Ascii
            (true, false, true, false, false, true, true, false)), (String
            ((Ascii (false, true, true, true, false, true, true, false)),
            (String ((Ascii (false, false, true, false, true, true, true,
            false)), (String ((Ascii (false, false, false, false, false,
            true, false, false)), (String ((Ascii (true, true, true, true,
            false, true, true, false)), (String ((Ascii (false, true, true,
            false, false, true, true, false)), (String ((Ascii (false, false,
            false, false, false, true, false, false)), (String ((Ascii
            (false, false, false, false, false, true, true, false)), (String
            ((Ascii (false, true, true, false, true, true, true, false)),
            (String ((Ascii (true, false, true, true, false, true, false,
            false)), (String ((Ascii (true, false, true, true, false, true,
            true, false)), (String ((Ascii (true, true, true, true, false,
            true, true, false)), (String ((Ascii (false, false, true, false,
            false, true, true, false)), (String ((Ascii (true, false, true,
            false, false, true, true, false)), (String ((Ascii (false, false,
            true, true, false, true, true, false)), (String ((Ascii (false,
            false, false, false, false, true, true, false)), (String ((Ascii
            (false, false, false, false, false, true, false, false)), (String
            ((Ascii (true, false, false, false, false, true, true, false)),
            (String ((Ascii (false, true, false, false, true, true, true,
            false)), (String ((Ascii (false, true, false, false, true, true,
            true, false)), (String ((Ascii (true, false, false, false, false,
            true, true, false)), (String ((Ascii (true, false, false, true,
            true, true, true, false)), (String ((Ascii (false, false, false,
            false, false, true, false, false)), (String ((Ascii (true, false,
            true, true, false, true, true, false)), (String ((Ascii (true,
            false, true, false, true, true, true, false)), (String ((Ascii
            (true, true, false, false, true, true, true, false)), (String
            ((Ascii (false, false, true, false, true, true, true, false)),
            (String ((Ascii (false, false, false, false, false, true, false,
            false)), (String ((Ascii (false, true, false, false, false, true,
            true, false)), (String ((Ascii (true, false, true, false, false,
            true, true, false)), (String ((Ascii (false, false, false, false,
            false, true, false, false)), (String ((Ascii (false, false, true,
            false, true, true, true, false)), (String ((Ascii (false, false,
            false, true, false, true, true, false)), (String ((Ascii (true,
            false, true, false, false, true, true, false)), (String ((Ascii
            (false, false, false, false, false, true, false, false)), (String
            ((Ascii (false, true, false, false, false, true, true, false)),
            (String ((Ascii (true, true, true, true, false, true, true,
            false)), (String ((Ascii (true, false, true, false, true, true,
            true, false)), (String ((Ascii (false, true, true, true, false,
            true, true, false)), (String ((Ascii (false, false, true, false,
            false, true, true, false)), (String ((Ascii (false, false, false,
            false, false, true, false, false)), (String ((Ascii (true, false,
            true, false, false, true, true, false)), (String ((Ascii (false,
            false, false, true, true, true, true, false)), (String ((Ascii
            (false, false, false, false, true, true, true, false)), (String
            ((Ascii (false, true, false, false, true, true, true, false)),
            (String ((Ascii (true, false, true, false, false, true, true,
            false)), (String ((Ascii (true, true, false, false, true, true,
            true, false)), (String ((Ascii (true, true, false, false, true,
            true, true, false)), (String ((Ascii (true, false, false, true,
            false, true, true, false)), (String ((Ascii (true, true, true,
            true, false, true, true, false)), (String ((Ascii (false, true,
            true, true, false, true, true, false)), (String ((Ascii (false,
            true, true, true, false, true, false, false)),
            EmptyString))))))))))))))))))))))))))))))))))))))))))))))))))))))))))))))))))))))))))))))))))))))))))))))))))))))))))))))))))))))))))))))))))))
            s))
  | _ -> s

(** val vmodel_parts :
    node -> bool -> node option -> str list -> (node * node option) * str
    list option **)

let vmodel_parts attr_value is_component argument splitted =
  match attr_value with
  | Arr elems -> array_form is_component argument splitted elems
  | _ -> ((attr_value, argument), (Some (set_of_list splitted)))

(** val is_assignable : node -> bool **)

let rec is_assignable v = match v with
| NObj fs ->
  let t = ntype v in
  if sq (String ((Ascii (true, true, false, false, true, false, true,
       false)), (String ((Ascii (true, false, true, false, true, true, true,
       false)), (String ((Ascii (false, false, false, false, true, true,
       true, false)), (String ((Ascii (true, false, true, false, false, true,
       true, false)), (String ((Ascii (false, true, false, false, true, true,
       true, false)), (String ((Ascii (false, false, false, false, true,
       false, true, false)), (String ((Ascii (false, true, false, false,
       true, true, true, false)), (String ((Ascii (true, true, true, true,
       false, true, true, false)), (String ((Ascii (false, false, false,
       false, true, true, true, false)), (String ((Ascii (true, false, true,
       false, false, false, true, false)), (String ((Ascii (false, false,
       false, true, true, true, true, false)), (String ((Ascii (false, false,
       false, false, true, true, true, false)), (String ((Ascii (false, true,
       false, false, true, true, true, false)), (String ((Ascii (true, false,
       true, false, false, true, true, false)), (String ((Ascii (true, true,
       false, false, true, true, true, false)), (String ((Ascii (true, true,
       false, false, true, true, true, false)), (String ((Ascii (true, false,
       false, true, false, true, true, false)), (String ((Ascii (true, true,
       true, true, false, true, true, false)), (String ((Ascii (false, true,
       true, true, false, true, true, false)),
       EmptyString)))))))))))))))))))))))))))))))))))))) t
  then true
  else if (||)
            ((||)
              ((||)
                (sq (String ((Ascii (false, false, true, false, true, false,
                  true, false)), (String ((Ascii (true, true, false, false,
                  true, true, true, false)), (String ((Ascii (true, false,
                  false, false, false, false, true, false)), (String ((Ascii
                  (true, true, false, false, true, true, true, false)),
                  (String ((Ascii (true, false, true, false, false, false,
                  true, false)), (String ((Ascii (false, false, false, true,
                  true, true, true, false)), (String ((Ascii (false, false,
                  false, false, true, true, true, false)), (String ((Ascii
                  (false, true, false, false, true, true, true, false)),
                  (String ((Ascii (true, false, true, false, false, true,
                  true, false)), (String ((Ascii (true, true, false, false,
                  true, true, true, false)), (String ((Ascii (true, true,
                  false, false, true, true, true, false)), (String ((Ascii
                  (true, false, false, true, false, true, true, false)),
                  (String ((Ascii (true, true, true, true, false, true, true,
                  false)), (String ((Ascii (false, true, true, true, false,
                  true, true, false)),
                  EmptyString)))))))))))))))))))))))))))) t)
                (sq (String ((Ascii (false, false, true, false, true, false,
                  true, false)), (String ((Ascii (true, true, false, false,
                  true, true, true, false)), (String ((Ascii (false, true,
                  true, true, false, false, true, false)), (String ((Ascii
                  (true, true, true, true, false, true, true, false)),
                  (String ((Ascii (false, true, true, true, false, true,
                  true, false)), (String ((Ascii (false, true, true, true,
                  false, false, true, false)), (String ((Ascii (true, false,
                  true, false, true, true, true, false)), (String ((Ascii
                  (false, false, true, true, false, true, true, false)),
                  (String ((Ascii (false, false, true, true, false, true,
                  true, false)), (String ((Ascii (true, false, true, false,
                  false, false, true, false)), (String ((Ascii (false, false,
                  false, true, true, true, true, false)), (String ((Ascii
                  (false, false, false, false, true, true, true, false)),
                  (String ((Ascii (false, true, false, false, true, true,
                  true, false)), (String ((Ascii (true, false, true, false,
                  false, true, true, false)), (String ((Ascii (true, true,
                  false, false, true, true, true, false)), (String ((Ascii
                  (true, true, false, false, true, true, true, false)),
                  (String ((Ascii (true, false, false, true, false, true,
                  true, false)), (String ((Ascii (true, true, true, true,
                  false, true, true, false)), (String ((Ascii (false, true,
                  true, true, false, true, true, false)),
                  EmptyString)))))))))))))))))))))))))))))))))))))) t))
              (sq (String ((Ascii (false, false, true, false, true, false,
                true, false)), (String ((Ascii (true, true, false, false,
                true, true, true, false)), (String ((Ascii (true, true,
                false, false, true, false, true, false)), (String ((Ascii
                (true, false, false, false, false, true, true, false)),
                (String ((Ascii (false, false, true, false, true, true, true,
                false)), (String ((Ascii (true, false, false, true, false,
                true, true, false)), (String ((Ascii (true, true, false,
                false, true, true, true, false)), (String ((Ascii (false,
                true, true, false, false, true, true, false)), (String
                ((Ascii (true, false, false, true, false, true, true,
                false)), (String ((Ascii (true, false, true, false, false,
                true, true, false)), (String ((Ascii (true, true, false,
                false, true, true, true, false)), (String ((Ascii (true,
                false, true, false, false, false, true, false)), (String
                ((Ascii (false, false, false, true, true, true, true,
                false)), (String ((Ascii (false, false, false, false, true,
                true, true, false)), (String ((Ascii (false, true, false,
                false, true, true, true, false)), (String ((Ascii (true,
                false, true, false, false, true, true, false)), (String
                ((Ascii (true, true, false, false, true, true, true, false)),
                (String ((Ascii (true, true, false, false, true, true, true,
                false)), (String ((Ascii (true, false, false, true, false,
                true, true, false)), (String ((Ascii (true, true, true, true,
                false, true, true, false)), (String ((Ascii (false, true,
                true, true, false, true, true, false)),
                EmptyString)))))))))))))))))))))))))))))))))))))))))) t))
            (sq (String ((Ascii (false, false, true, false, true, false,
              true, false)), (String ((Ascii (true, true, false, false, true,
              true, true, false)), (String ((Ascii (false, false, true,
              false, true, false, true, false)), (String ((Ascii (true,
              false, false, true, true, true, true, false)), (String ((Ascii
              (false, false, false, false, true, true, true, false)), (String
              ((Ascii (true, false, true, false, false, true, true, false)),
              (String ((Ascii (true, false, false, false, false, false, true,
              false)), (String ((Ascii (true, true, false, false, true, true,
              true, false)), (String ((Ascii (true, true, false, false, true,
              true, true, false)), (String ((Ascii (true, false, true, false,
              false, true, true, false)), (String ((Ascii (false, true,
              false, false, true, true, true, false)), (String ((Ascii
              (false, false, true, false, true, true, true, false)), (String
              ((Ascii (true, false, false, true, false, true, true, false)),
              (String ((Ascii (true, true, true, true, false, true, true,
              false)), (String ((Ascii (false, true, true, true, false, true,
              true, false)), EmptyString)))))))))))))))))))))))))))))) t)
       then let rec find = function
            | [] -> false
            | n :: r ->
              (match n with
               | Field (k, e) ->
                 if sq (String ((Ascii (true, false, true, false, false,
                      true, true, false)), (String ((Ascii (false, false,
                      false, true, true, true, true, false)), (String ((Ascii
                      (false, false, false, false, true, true, true, false)),
                      (String ((Ascii (false, true, false, false, true, true,
                      true, false)), (String ((Ascii (true, false, true,
                      false, false, true, true, false)), (String ((Ascii
                      (true, true, false, false, true, true, true, false)),
                      (String ((Ascii (true, true, false, false, true, true,
                      true, false)), (String ((Ascii (true, false, false,
                      true, false, true, true, false)), (String ((Ascii
                      (true, true, true, true, false, true, true, false)),
                      (String ((Ascii (false, true, true, true, false, true,
                      true, false)), EmptyString)))))))))))))))))))) k
                 then is_assignable e
                 else find r
               | _ -> find r)
            in find fs
       else false
| Ident (_, _, _) -> true
| Paren e -> is_assignable e
| Member (_, _) -> true
| _ -> false

(** val vmodel_target_check : node -> st -> st **)

let vmodel_target_check v s =
  if is_assignable v
  then s
  else add_diag (String ((Ascii (false, false, false, false, false, true,
         true, false)), (String ((Ascii (false, true, true, false, true,
         true, true, false)), (String ((Ascii (true, false, true, true,
         false, true, false, false)), (String ((Ascii (true, false, true,
         true, false, true, true, false)), (String ((Ascii (true, true, true,
         true, false, true, true, false)), (String ((Ascii (false, false,
         true, false, false, true, true, false)), (String ((Ascii (true,
         false, true, false, false, true, true, false)), (String ((Ascii
         (false, false, true, true, false, true, true, false)), (String
         ((Ascii (false, false, false, false, false, true, true, false)),
         (String ((Ascii (false, false, false, false, false, true, false,
         false)), (String ((Ascii (true, false, true, true, false, true,
         true, false)), (String ((Ascii (true, false, true, false, true,
         true, true, false)), (String ((Ascii (true, true, false, false,
         true, true, true, false)), (String ((Ascii (false, false, true,
         false, true, true, true, false)), (String ((Ascii (false, false,
         false, false, false, true, false, false)), (String ((Ascii (false,
         true, false, false, false, true, true, false)), (String ((Ascii
         (true, false, true, false, false, true, true, false)), (String
         ((Ascii (false, false, false, false, false, true, false, false)),
         (String ((Ascii (false, true, false, false, false, true, true,
         false)), (String ((Ascii (true, true, true, true, false, true, true,
         false)), (String ((Ascii (true, false, true, false, true, true,
         true, false)), (String ((Ascii (false, true, true, true, false,
         true, true, false)), (String ((Ascii (false, false, true, false,
         false, true, true, false)), (String ((Ascii (false, false, false,
         false, false, true, false, false)), (String ((Ascii (false, false,
         true, false, true, true, true, false)), (String ((Ascii (true, true,
         true, true, false, true, true, false)), (String ((Ascii (false,
         false, false, false, false, true, false, false)), (String ((Ascii
         (true, false, false, false, false, true, true, false)), (String
         ((Ascii (false, true, true, true, false, true, true, false)),
         (String ((Ascii (false, false, false, false, false, true, false,
         false)), (String ((Ascii (true, false, false, false, false, true,
         true, false)), (String ((Ascii (true, true, false, false, true,
         true, true, false)), (String ((Ascii (true, true, false, false,
         true, true, true, false)), (String ((Ascii (true, false, false,
         true, false, true, true, false)), (String ((Ascii (true, true, true,
         false, false, true, true, false)), (String ((Ascii (false, true,
         true, true, false, true, true, false)), (String ((Ascii (true,
         false, false, false, false, true, true, false)), (String ((Ascii
         (false, true, false, false, false, true, true, false)), (String
         ((Ascii (false, false, true, true, false, true, true, false)),
         (String ((Ascii (true, false, true, false, false, true, true,
         false)), (String ((Ascii (false, false, false, false, false, true,
         false, false)), (String ((Ascii (true, false, true, false, false,
         true, true, false)), (String ((Ascii (false, false, false, true,
         true, true, true, false)), (String ((Ascii (false, false, false,
         false, true, true, true, false)), (String ((Ascii (false, true,
         false, false, true, true, true, false)), (String ((Ascii (true,
         false, true, false, false, true, true, false)), (String ((Ascii
         (true, true, false, false, true, true, true, false)), (String
         ((Ascii (true, true, false, false, true, true, true, false)),
         (String ((Ascii (true, false, false, true, false, true, true,
         false)), (String ((Ascii (true, true, true, true, false, true, true,
         false)), (String ((Ascii (false, true, true, true, false, true,
         true, false)), (String ((Ascii (false, false, false, false, false,
         true, false, false)), (String ((Ascii (false, false, false, true,
         false, true, false, false)), (String ((Ascii (true, false, false,
         true, false, true, true, false)), (String ((Ascii (false, false,
         true, false, false, true, true, false)), (String ((Ascii (true,
         false, true, false, false, true, true, false)), (String ((Ascii
         (false, true, true, true, false, true, true, false)), (String
         ((Ascii (false, false, true, false, true, true, true, false)),
         (String ((Ascii (true, false, false, true, false, true, true,
         false)), (String ((Ascii (false, true, true, false, false, true,
         true, false)), (String ((Ascii (true, false, false, true, false,
         true, true, false)), (String ((Ascii (true, false, true, false,
         false, true, true, false)), (String ((Ascii (false, true, false,
         false, true, true, true, false)), (String ((Ascii (false, false,
         false, false, false, true, false, false)), (String ((Ascii (true,
         true, true, true, false, true, true, false)), (String ((Ascii
         (false, true, false, false, true, true, true, false)), (String
         ((Ascii (false, false, false, false, false, true, false, false)),
         (String ((Ascii (true, false, true, true, false, true, true,
         false)), (String ((Ascii (true, false, true, false, false, true,
         true, false)), (String ((Ascii (true, false, true, true, false,
         true, true, false)), (String ((Ascii (false, true, false, false,
         false, true, true, false)), (String ((Ascii (true, false, true,
         false, false, true, true, false)), (String ((Ascii (false, true,
         false, false, true, true, true, false)), (String ((Ascii (false,
         false, false, false, false, true, false, false)), (String ((Ascii
         (true, false, true, false, false, true, true, false)), (String
         ((Ascii (false, false, false, true, true, true, true, false)),
         (String ((Ascii (false, false, false, false, true, true, true,
         false)), (String ((Ascii (false, true, false, false, true, true,
         true, false)), (String ((Ascii (true, false, true, false, false,
         true, true, false)), (String ((Ascii (true, true, false, false,
         true, true, true, false)), (String ((Ascii (true, true, false,
         false, true, true, true, false)), (String ((Ascii (true, false,
         false, true, false, true, true, false)), (String ((Ascii (true,
         true, true, true, false, true, true, false)), (String ((Ascii
         (false, true, true, true, false, true, true, false)), (String
         ((Ascii (true, false, false, true, false, true, false, false)),
         (String ((Ascii (false, true, true, true, false, true, false,
         false)),
         EmptyString))))))))))))))))))))))))))))))))))))))))))))))))))))))))))))))))))))))))))))))))))))))))))))))))))))))))))))))))))))))))))))))))))))))))))))))))))))))))))))))))))))))))))))
         s

(** val parse_v_model :
    node -> bool -> node option -> str list -> st -> directive * st **)

let parse_v_model value is_component argument splitted s =
  let (attr_value, s0) = vmodel_attr_value value s in
  let s1 = vmodel_first_check attr_value s0 in
  let (p, modifiers) = vmodel_parts attr_value is_component argument splitted
  in
  let (value', argument0) = p in
  let s2 = vmodel_target_check value' s1 in
  ((DVModel (argument0,
  (if (&&) (negb is_component) (nonempty_mods modifiers)
   then or_void0 argument0
   else argument0),
  (match modifiers with
   | Some m -> transform_modifiers m is_component
   | None -> None), value')), s2)

(** val parse_v_slots : node -> directive **)

let parse_v_slots = function
| JExprC e ->
  (match e with
   | Ident (_, _, _) -> DSlots (Some e)
   | Obj _ -> DSlots (Some e)
   | _ -> DSlots None)
| _ -> DSlots None

(** val normal_parts :
    node -> node option -> str list -> (node * node option) * str list option **)

let normal_parts value argument splitted =
  match value with
  | JExprC e ->
    (match e with
     | Arr elems -> array_form false argument splitted elems
     | JEmpty -> ((empty_ident, argument), (Some (set_of_list splitted)))
     | _ -> ((e, argument), (Some (set_of_list splitted))))
  | _ -> ((empty_ident, argument), (Some (set_of_list splitted)))

(** val parse_directive : node -> node -> bool -> st -> directive * st **)

let parse_directive name value is_component s =
  let (p, splitted) =
    match name with
    | NScalar _ -> (([], None), [])
    | NArr _ -> (([], None), [])
    | NObj _ -> (([], None), [])
    | Field (_, _) -> (([], None), [])
    | Ident (_, _, _) -> (([], None), [])
    | BIdent (_, _, _, _) -> (([], None), [])
    | IdName sym ->
      let parts =
        split_on (Npos (Coq_xI (Coq_xI (Coq_xI (Coq_xI (Coq_xI (Coq_xO
          Coq_xH)))))))
          (trim_start_c (Npos (Coq_xI (Coq_xO (Coq_xI (Coq_xI (Coq_xO
            Coq_xH))))))
            (trim_start_c (Npos (Coq_xO (Coq_xI (Coq_xI (Coq_xO (Coq_xI
              (Coq_xI Coq_xH))))))) sym))
      in
      (((lowercase_first (match parts with
                          | [] -> sym
                          | p :: _ -> p)), None),
      (match parts with
       | [] -> []
       | _ :: r -> r))
    | Str (_, _) -> (([], None), [])
    | Num (_, _) -> (([], None), [])
    | Bool _ -> (([], None), [])
    | Null -> (([], None), [])
    | Arr _ -> (([], None), [])
    | Elem (_, _) -> (([], None), [])
    | Hole -> (([], None), [])
    | Obj _ -> (([], None), [])
    | KV (_, _) -> (([], None), [])
    | Computed _ -> (([], None), [])
    | Spread _ -> (([], None), [])
    | Call (_, _, _, _, _) -> (([], None), [])
    | Arrow (_, _, _, _, _, _, _) -> (([], None), [])
    | Assign (_, _, _) -> (([], None), [])
    | Paren _ -> (([], None), [])
    | Cond (_, _, _) -> (([], None), [])
    | Bin (_, _, _) -> (([], None), [])
    | Unary (_, _) -> (([], None), [])
    | Member (_, _) -> (([], None), [])
    | Block (_, _) -> (([], None), [])
    | JsxE (_, _, _, _, _, _) -> (([], None), [])
    | JsxF _ -> (([], None), [])
    | JAttr (_, _) -> (([], None), [])
    | JNs (ns0, name0) ->
      (match ns0 with
       | NScalar _ -> (([], None), [])
       | NArr _ -> (([], None), [])
       | NObj _ -> (([], None), [])
       | Field (_, _) -> (([], None), [])
       | Ident (_, _, _) -> (([], None), [])
       | BIdent (_, _, _, _) -> (([], None), [])
       | IdName ns ->
         (match name0 with
          | NScalar _ -> (([], None), [])
          | NArr _ -> (([], None), [])
          | NObj _ -> (([], None), [])
          | Field (_, _) -> (([], None), [])
          | Ident (_, _, _) -> (([], None), [])
          | BIdent (_, _, _, _) -> (([], None), [])
          | IdName nm ->
            let parts =
              split_on (Npos (Coq_xI (Coq_xI (Coq_xI (Coq_xI (Coq_xI (Coq_xO
                Coq_xH))))))) nm
            in
            (((lowercase_first
                (trim_start_c (Npos (Coq_xI (Coq_xO (Coq_xI (Coq_xI (Coq_xO
                  Coq_xH))))))
                  (trim_start_c (Npos (Coq_xO (Coq_xI (Coq_xI (Coq_xO (Coq_xI
                    (Coq_xI Coq_xH))))))) ns))), (Some
            (match parts with
             | [] -> nm
             | p :: _ -> p))), (match parts with
                                | [] -> []
                                | _ :: r -> r))
          | _ -> (([], None), []))
       | _ -> (([], None), []))
    | _ -> (([], None), [])
  in
  let (dname, argument) = p in
  let argument0 = match argument with
                  | Some a -> Some (mk_str a)
                  | None -> None
  in
  if sq (String ((Ascii (false, false, false, true, false, true, true,
       false)), (String ((Ascii (false, false, true, false, true, true, true,
       false)), (String ((Ascii (true, false, true, true, false, true, true,
       false)), (String ((Ascii (false, false, true, true, false, true, true,
       false)), EmptyString)))))))) dname
  then let (e, s0) =
         parse_html_text (String ((Ascii (false, true, true, false, true,
           true, true, false)), (String ((Ascii (true, false, true, true,
           false, true, false, false)), (String ((Ascii (false, false, false,
           true, false, true, true, false)), (String ((Ascii (false, false,
           true, false, true, true, true, false)), (String ((Ascii (true,
           false, true, true, false, true, true, false)), (String ((Ascii
           (false, false, true, true, false, true, true, false)),
           EmptyString)))))))))))) value s
       in
       ((DHtml e), s0)
  else if sq (String ((Ascii (false, false, true, false, true, true, true,
            false)), (String ((Ascii (true, false, true, false, false, true,
            true, false)), (String ((Ascii (false, false, false, true, true,
            true, true, false)), (String ((Ascii (false, false, true, false,
            true, true, true, false)), EmptyString)))))))) dname
       then let (e, s0) =
              parse_html_text (String ((Ascii (false, true, true, false,
                true, true, true, false)), (String ((Ascii (true, false,
                true, true, false, true, false, false)), (String ((Ascii
                (false, false, true, false, true, true, true, false)),
                (String ((Ascii (true, false, true, false, false, true, true,
                false)), (String ((Ascii (false, false, false, true, true,
                true, true, false)), (String ((Ascii (false, false, true,
                false, true, true, true, false)), EmptyString))))))))))))
                value s
            in
            ((DText e), s0)
       else if sq (String ((Ascii (true, false, true, true, false, true,
                 true, false)), (String ((Ascii (true, true, true, true,
                 false, true, true, false)), (String ((Ascii (false, false,
                 true, false, false, true, true, false)), (String ((Ascii
                 (true, false, true, false, false, true, true, false)),
                 (String ((Ascii (false, false, true, true, false, true,
                 true, false)), EmptyString)))))))))) dname
            then parse_v_model value is_component argument0 splitted s
            else if sq (String ((Ascii (true, true, false, false, true, true,
                      true, false)), (String ((Ascii (false, false, true,
                      true, false, true, true, false)), (String ((Ascii
                      (true, true, true, true, false, true, true, false)),
                      (String ((Ascii (false, false, true, false, true, true,
                      true, false)), (String ((Ascii (true, true, false,
                      false, true, true, true, false)), EmptyString))))))))))
                      dname
                 then ((parse_v_slots value), s)
                 else let (p0, modifiers) =
                        normal_parts value argument0 splitted
                      in
                      let (value', argument1) = p0 in
                      ((DNormal (dname,
                      (if nonempty_mods modifiers
                       then or_void0 argument1
                       else argument1),
                      (match modifiers with
                       | Some m -> transform_modifiers m false
                       | None -> None), value')), s)
