open Ascii
open Ast
open BinNat
open BinNums
open Datatypes
open Json
open List
open Str
open String

type options = { o_transform_on : bool; o_optimize : bool;
                 o_merge_props : bool; o_object_slots : bool;
                 o_pragma : str option; o_resolve_type : bool; o_npat : 
                 nat }

type env = { e_opts : options; e_unres : coq_N;
             e_matches : (str * bool list) list; e_html : str list;
             e_svg : str list; e_comments : str list list }

val lookup_matches : str -> (str * bool list) list -> bool list

val pat_any : env -> str -> bool

val is_html_or_svg : env -> str -> bool

type st = { imports : str list; ton_helper : bool;
            define_component : coq_N option;
            interfaces : ((str * coq_N) * node) list;
            aliases : ((str * coq_N) * node) list; pragma : str option;
            slot_helper : bool; inj_vars : node list; slot_counter : 
            coq_N; slot_stack : bool list; assign_left : str option;
            inj_consts : node list; fresh : coq_N; diags : str list;
            panicked : bool }

val st0 : st

val set_imports : str list -> st -> st

val set_ton : bool -> st -> st

val set_define_component : coq_N option -> st -> st

val set_interfaces : ((str * coq_N) * node) list -> st -> st

val set_aliases : ((str * coq_N) * node) list -> st -> st

val set_pragma : str option -> st -> st

val set_slot_helper : bool -> st -> st

val set_inj_vars : node list -> st -> st

val set_slot_counter : coq_N -> st -> st

val set_slot_stack : bool list -> st -> st

val set_assign_left : str option -> st -> st

val set_inj_consts : node list -> st -> st

val set_fresh : coq_N -> st -> st

val set_diags : str list -> st -> st

val set_panicked : bool -> st -> st

val add_diag : string -> st -> st

val panic : st -> st

val helper_names : string list

val helper_index : str -> string list -> coq_N -> coq_N

val helper_ctx : str -> coq_N

val ton_ctx : coq_N

val slot_helper_ctx : coq_N

val temp_ctx : coq_N -> coq_N

val mk_ident : str -> coq_N -> node

val mk_bident : str -> coq_N -> node

val import_from_vue : string -> st -> node * st

val fresh_ident : str -> st -> (node * coq_N) * st

val mk_str : str -> node

val mk_strS : string -> node

val mk_num : coq_N -> node

val mk_call : node -> node list -> node

val mk_arrow : node list -> node -> node

val mk_void0 : node

val empty_ident : node
