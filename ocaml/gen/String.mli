open Ascii

type string =
| EmptyString
| String of ascii * string

val append : string -> string -> string
